"""C17 - renderlab: generated endpoint results through real routes with render_basic, render_json,
render_json_dev, streaming JSON and JSONP; status, Content-Type and parsed body compared."""
import json
import random

from harness import core, sexp

TEXTS = ['', 'plain text', '{"a": 1}', '[1, 2, 3]', '{}', '[]', '{not json}', '[x', 'x]', ' {"a": 1}', '{"a": 1} ', '<html><body>x</body></html>',
         '<!DOCTYPE html PUBLIC "-//W3C//DTD XHTML 1.0 Strict//EN" "http://www.w3.org/TR/xhtml1/DTD/xhtml1-strict.dtd"><html>x</html>',
         'x' * 170 + '<html>', 'é中 text', '{"é": "中"}', '{"page": "<html>x</html>", "id": 7}', '["<html>", "x"]', 'null', '42', '<HTML>upper</HTML>',
         # serialized JSON longer than the 168-byte window of the HTML sniffing, compact and indented, objects and arrays
         '{"items": [' + ', '.join('{"id": %d, "name": "item number %d"}' % (i, i) for i in range(12)) + ']}',
         '[' + ', '.join(str(i) for i in range(120)) + ']',
         '{\n  "a": "' + 'x' * 200 + '",\n  "b": [1, 2, 3]\n}', '[' + '"y", ' * 60 + '"z"]  ',
         # text that opens with one kind of bracket and closes with the other: a log line, a template, a wrapped page
         '[INFO] worker started {pid=4711}', '{greeting}, please contact [support]', '{% raw %}<html><body>x</body></html>[end]', '[}', '{]']
ACCEPTS = [None, 'text/html', 'application/json', '*/*', 'text/html;q=0.2, application/json;q=0.9', 'image/png', 'application/json;q=0', '',
           'text/*', 'text/html, application/xhtml+xml, application/xml;q=0.9, */*;q=0.8',
           'application/xhtml+xml, text/html;q=0.9', 'application/pdf, text/html;q=0.8', 'application/xml,application/xhtml+xml,text/html;q=0.9,*/*;q=0.5']


# ------------------------------------------------------------------ value specs <-> python values <-> model terms
def gen_value(rng, depth=0, tabular=False):
    x = rng.random()
    if depth >= 3 or x < 0.45:
        k = rng.choice(['str', 'str', 'int', 'float', 'bool', 'none', 'bytes', 'date', 'plain', 'gen', 'todict', 'asdict'] if depth == 0 or not tabular
                       else ['str', 'int', 'float', 'bool', 'none'])
        if k == 'str':
            return ['s', rng.choice(TEXTS)]
        if k == 'bytes':
            return ['b', rng.choice(TEXTS)]
        if k == 'int':
            return ['i', rng.choice([0, 1, -1, 7, 10 ** 18, -10 ** 30, 255])]
        if k == 'float':
            return ['f', rng.choice([0.0, 1.5, -2.25, 1e-7, 1e22, 3.141592653589793, -0.0, 123456789.125])]
        if k == 'bool':
            return ['bool', rng.random() < 0.5]
        if k == 'none':
            return 'none'
        if k == 'date':
            # everything that has isoformat(): datetime, date, time, and an application's own timestamp type
            return ['date', rng.choice(['2020-01-02T03:04:05', '1999-12-31T23:59:59.000123', '2024-02-29', '0001-01-01', '03:04:05',
                                        '23:59:59.000123', 'iso:2020-W01-3', 'iso:é中 <stamp>'])]
        if k == 'plain':
            return ['plain', rng.choice(['obj1', '<weird "repr">', 'é'])]
        if k == 'gen':
            return ['gen', 'g']
        inner = gen_value(rng, depth + 1, tabular)
        while not isinstance(inner, list) or inner[0] != 'dict':
            inner = ['dict', [[rng.choice('abc'), gen_value(rng, 3)]]]
        return [k, inner]
    k = rng.choice(['dict', 'dict', 'list', 'list', 'tuple', 'set', 'mapping'])
    n = rng.choice([0, 1, 2, 3])
    if k in ('dict', 'mapping'):
        keys = rng.sample(['a', 'b', 'key', 'é', 'x y', ''], n)
        return [k, [[kk, gen_value(rng, depth + 1, tabular)] for kk in keys]]
    if k == 'set':
        items = []
        for _ in range(n):
            v = gen_value(rng, 3)
            if isinstance(v, list) and v[0] in ('s', 'i', 'bool') and v not in items:
                items.append(v)
        # True == 1 and 0 == False in a Python set: keep at most one numeric-like item
        nums = [v for v in items if v[0] in ('i', 'bool')]
        items = [v for v in items if v[0] == 's'] + nums[:1]
        return ['set', items]
    return [k, [gen_value(rng, depth + 1, tabular) for _ in range(n)]]


def gen_tabular(rng):
    """flat mappings, sequences of scalars, sequences of flat mappings / flat sequences (O10)"""
    scalar = lambda: rng.choice([['s', rng.choice(['x', 'é', '<b>'])], ['i', rng.choice([0, 5])], ['f', 1.5], ['bool', True], 'none'])
    k = rng.choice(['flatdict', 'scalars', 'rows', 'lists'])
    if k == 'flatdict':
        return ['dict', [[kk, scalar()] for kk in rng.sample(['a', 'b', 'c', 'd'], rng.choice([1, 2, 3]))]]
    if k == 'scalars':
        return ['list', [scalar() for _ in range(rng.choice([1, 2, 4]))]]
    if k == 'rows':
        keys = rng.sample(['a', 'b', 'c'], rng.choice([1, 2, 3]))
        return ['list', [['dict', [[kk, scalar()] for kk in keys]] for _ in range(rng.choice([1, 2, 3]))]]
    w = rng.choice([1, 2, 3])
    return ['list', [['list', [scalar() for _ in range(w)]] for _ in range(rng.choice([1, 2, 3]))]]


class Stamp(object):
    def __init__(self, text):
        self.text = text

    def isoformat(self):
        return self.text

    def __repr__(self):
        return 'Stamp'


class TD(object):
    def __init__(self, d):
        self.d = d

    def to_dict(self):
        return self.d

    def __repr__(self):
        return 'TD'


class AD(object):
    def __init__(self, d):
        self.d = d

    def asdict(self):
        return self.d

    def __repr__(self):
        return 'AD'


def to_python(spec):
    import datetime
    from collections.abc import Mapping
    if spec == 'none':
        return None
    t = spec[0]
    if t == 's':
        return spec[1]
    if t == 'b':
        return spec[1].encode('utf8')
    if t in ('i', 'f', 'bool'):
        return spec[1]
    if t == 'date':
        v = spec[1]
        if v.startswith('iso:'):
            return Stamp(v[4:])
        if 'T' in v:
            return datetime.datetime.fromisoformat(v)
        return datetime.time.fromisoformat(v) if ':' in v else datetime.date.fromisoformat(v)
    if t == 'plain':
        class Plain(object):
            def __init__(self, r):
                self.r = r

            def __repr__(self):
                return self.r
        return Plain(spec[1])
    if t == 'gen':
        return (i for i in range(3))
    if t == 'todict':
        return TD(to_python(spec[1]))
    if t == 'asdict':
        return AD(to_python(spec[1]))
    if t == 'dict':
        return dict((k, to_python(v)) for k, v in spec[1])
    if t == 'mapping':
        class M(Mapping):
            def __init__(self, d):
                self.d = d

            def __getitem__(self, k):
                return self.d[k]

            def __iter__(self):
                return iter(self.d)

            def __len__(self):
                return len(self.d)
        return M(dict((k, to_python(v)) for k, v in spec[1]))
    if t == 'oddkeys':
        # mappings whose keys are not (all) strings: legitimate Python dicts an endpoint may return
        return {'int': {1: 'a', 2: 'b', 10: 'c'}, 'float': {1.5: 'a', 2.0: 'b'}, 'bool': {True: 'yes', False: 'no'}, 'none': {None: 'nothing', 'a': 1},
                'tuple': {(1, 2): 'pair', 'a': 1}, 'mixed': {1: 'a', 'b': 2}, 'mixed_nested': {'rows': [{1: 'a', 'b': 2}]},
                'bytes': {b'k': 1, b'j': 2}}[spec[1]]
    if t == 'list':
        return [to_python(v) for v in spec[1]]
    if t == 'tuple':
        return tuple(to_python(v) for v in spec[1])
    if t == 'set':
        return set(to_python(v) for v in spec[1])
    raise ValueError(spec)


def to_model(spec):
    if spec == 'none':
        return 'none'
    t = spec[0]
    if t in ('s', 'b'):
        return [t, spec[1].encode('utf8')]
    if t == 'i':
        return ['i', spec[1]]
    if t == 'f':
        return ['f', repr(spec[1])]
    if t == 'bool':
        return ['bool', bool(spec[1])]
    if t == 'date':
        return ['date', (spec[1][4:] if spec[1].startswith('iso:') else spec[1]).encode('utf8')]
    if t == 'plain':
        return ['plain', spec[1].encode('utf8')]
    if t == 'gen':
        return ['gen', 'GENERATOR']
    if t in ('todict', 'asdict'):
        return [t, to_model(spec[1])]
    if t in ('dict', 'mapping'):
        return [t, [[k.encode('utf8'), to_model(v)] for k, v in spec[1]]]
    return [t, [to_model(v) for v in spec[1]]]


def json_of_model(t):
    """model jsonval (parsed sexp) -> python value; sets become ('set', sorted reprs)"""
    if t == b'null':
        return None
    tag = t[0].decode()
    if tag == 's':
        return t[1].decode('utf8', 'replace')
    if tag == 'n':
        s = t[1].decode()
        try:
            return int(s)
        except ValueError:
            return float(s)
    if tag == 'bool':
        return t[1] == b'T'
    if tag == 'arr':
        return [json_of_model(x) for x in t[1]]
    if tag == 'set':
        return ['__set__'] + sorted((json_of_model(x) for x in t[1]), key=repr)
    if tag == 'obj':
        return dict((kv[0].decode('utf8', 'replace'), json_of_model(kv[1])) for kv in t[1])
    raise ValueError(tag)


def same_json(model_v, impl_v, spec_has_gen):
    """structural equality; a model set matches any ordering; a generator's repr is an address: any string"""
    if isinstance(model_v, list) and model_v and model_v[0] == '__set__':
        return isinstance(impl_v, list) and sorted(impl_v, key=repr) == model_v[1:]
    if isinstance(model_v, str) and model_v == 'GENERATOR':
        return isinstance(impl_v, str) and impl_v.startswith('<generator')
    if isinstance(model_v, dict):
        return isinstance(impl_v, dict) and set(model_v) == set(impl_v) and all(same_json(model_v[k], impl_v[k], spec_has_gen) for k in model_v)
    if isinstance(model_v, list):
        return isinstance(impl_v, list) and len(model_v) == len(impl_v) and all(same_json(a, b2, spec_has_gen) for a, b2 in zip(model_v, impl_v))
    if isinstance(model_v, bool) or isinstance(impl_v, bool):
        return model_v is impl_v
    return model_v == impl_v


def native(spec):
    """JSON-native data: parses back to the original value"""
    if spec == 'none':
        return True
    t = spec[0]
    if t in ('s', 'i', 'f', 'bool'):
        return True
    if t == 'list':
        return all(native(v) for v in spec[1])
    if t == 'dict':
        return all(native(v) for _, v in spec[1])
    return False


def serialisable(spec):
    """JSON-native scalars inside any nesting of the containers the encoder turns into arrays / objects"""
    if spec == 'none':
        return True
    t = spec[0]
    if t in ('s', 'i', 'f', 'bool'):
        return True
    if t in ('list', 'tuple', 'set'):
        return all(serialisable(v) for v in spec[1])
    if t in ('dict', 'mapping'):
        return all(serialisable(v) for _, v in spec[1])
    return False


def matches(spec, parsed):
    """the parsed JSON has the structure of the value: sequences and sets are arrays (a set in any order), mappings objects"""
    if spec == 'none':
        return parsed is None
    t = spec[0]
    if t in ('s', 'i', 'f'):
        return not isinstance(parsed, bool) and parsed == spec[1]
    if t == 'bool':
        return parsed is bool(spec[1])
    if t in ('list', 'tuple'):
        return isinstance(parsed, list) and len(parsed) == len(spec[1]) and all(matches(a, b2) for a, b2 in zip(spec[1], parsed))
    if t == 'set':
        if not isinstance(parsed, list) or len(parsed) != len(spec[1]):
            return False
        left = list(parsed)
        for a in spec[1]:
            hit = next((i for i, b2 in enumerate(left) if matches(a, b2)), None)
            if hit is None:
                return False
            del left[hit]
        return True
    if t in ('dict', 'mapping'):
        return isinstance(parsed, dict) and set(parsed) == set(k for k, _ in spec[1]) and all(matches(v, parsed[k]) for k, v in spec[1])
    return True                           # dates, objects, generators: the model decides


def native_value(spec):
    if spec == 'none':
        return None
    t = spec[0]
    if t in ('s', 'i', 'f', 'bool'):
        return spec[1]
    if t == 'list':
        return [native_value(v) for v in spec[1]]
    return dict((k, native_value(v)) for k, v in spec[1])


# ------------------------------------------------------------------ implementation side
def impl(case):
    from clastic import Application
    from clastic.render import render_basic, render_json, render_json_dev, JSONRender, JSONPRender
    from harness import wsgi
    from werkzeug.datastructures import MIMEAccept
    from werkzeug.http import parse_accept_header
    renders = {'basic': render_basic, 'json': render_json, 'json_dev': render_json_dev, 'json_stream': JSONRender(streaming=True, dev_mode=True),
               'jsonp': JSONPRender(dev_mode=True)}
    out = []
    for rq in case['requests']:
        holder = {}

        def ep():
            return holder['v']
        ep.__doc__ = case.get('doc')      # the HTML table view shows the endpoint's docstring
        app = Application([('/v', ep, renders[rq['render']])])
        holder['v'] = to_python(case['value'])
        headers = {} if rq['accept'] is None else {'Accept': rq['accept']}
        env = wsgi.environ('/v', query=rq['query'], headers=headers)
        if rq.get('form') is not None:
            # a form submission: what the form fields are called is the application's business, not the renderer's
            env = wsgi.environ('/v', method='POST', query=rq['query'], headers=headers, body=rq['form'].encode('utf8'))
            env['CONTENT_TYPE'] = 'application/x-www-form-urlencoded'
        r = wsgi.call(app, env)
        best = None
        if rq['accept']:
            best = parse_accept_header(rq['accept'], MIMEAccept).best_match(['text/html', 'application/json'])
        body = r.body
        parsed, perr = None, None
        ctype = (r.header('Content-Type') or '').split(';')[0].strip()
        txt = body.decode('utf8', 'replace')
        if ctype == 'application/json' and rq['render'] != 'basic' or (ctype == 'application/json' and not isinstance(to_python(case['value']), (str, bytes))):
            try:
                parsed = json.loads(txt)
            except Exception as e:
                perr = '%s: %s' % (type(e).__name__, e)
        if ctype == 'application/javascript':
            cb = rq['query'].split('callback=')[1].split('&')[0] if 'callback=' in rq['query'] else ''
            if txt.startswith(cb + '(') and txt.endswith(');'):
                try:
                    parsed = json.loads(txt[len(cb) + 1:-2])
                except Exception as e:
                    perr = '%s: %s' % (type(e).__name__, e)
            else:
                perr = 'not a JSONP call: %r' % txt[:60]
        out.append({'status': r.code, 'exc': type(r.exc).__name__ if r.exc else None, 'ctype': ctype, 'parsed': parsed, 'parse_error': perr,
                    'body_is_input': (body == (case['value'][1].encode('utf8') if isinstance(case['value'], list) and case['value'][0] in ('s', 'b') else None)),
                    'has_table': '<table' in txt, 'n_html_close': txt.count('</html>'), 'n_html_open': txt.count('<html'),
                    'after_close': len(txt.split('</html>', 1)[1].strip()) if '</html>' in txt else 0,
                    'best': best, 'body_head': txt[:120]})
    return out


def unorderable_keys(v):
    """some mapping inside v has keys that Python cannot order among themselves (1 and 'b', None and 'a', a tuple and 'a')"""
    if isinstance(v, dict):
        try:
            sorted(v.keys())
        except TypeError:
            return True
        return any(unorderable_keys(x) for x in v.values())
    if isinstance(v, (list, tuple)):
        return any(unorderable_keys(x) for x in v)
    return False


def fmt_of(query):
    if 'format=' not in query:
        return 'absent'
    f = query.split('format=')[1].split('&')[0]
    return f if f in ('json', 'html') else ('absent' if f == '' else 'other')


def oracle(case, obs):
    spec = case['value']
    for rq, o in zip(case['requests'], obs):
        what = '%s of %s (query %r, Accept %r)' % (rq['render'], json.dumps(spec)[:120], rq['query'], rq['accept'])
        f = fmt_of(rq['query'])
        if rq['render'] == 'basic':
            if f == 'other':
                continue
            if f == 'html' or (f == 'absent' and o['best'] == 'text/html'):
                if not case.get('tabular') and isinstance(spec, list) and spec[0] in ('dict', 'list', 'tuple', 'set', 'mapping'):
                    continue          # HTML table of a non-tabular shape: outside the clause (O10)
            if isinstance(spec, list) and spec[0] == 'oddkeys' and (f == 'html' or (f == 'absent' and o['best'] == 'text/html')):
                continue              # the HTML table of such a mapping is the third-party table builder's business (O10)
            if o['exc'] or o['status'] != 200:
                sig = 'basic-not-200'
                if isinstance(spec, list) and spec[0] == 'oddkeys' and unorderable_keys(to_python(spec)):
                    sig = 'render_basic:mapping-with-unorderable-keys'
                return ('%s: status %s %s' % (what, o['status'], o['exc'] or ''), sig)
            if isinstance(spec, list) and spec[0] == 'oddkeys':
                if o['ctype'] != 'application/json' or o['parse_error']:
                    return ('%s: expected JSON, got %s %s' % (what, o['ctype'], o['parse_error'] or ''), 'json')
                continue
            if isinstance(spec, list) and spec[0] in ('s', 'b'):
                t = spec[1]
                stripped_json = False
                try:
                    stripped_json = isinstance(json.loads(t), (dict, list)) and t == t.strip()
                except Exception:
                    pass
                if stripped_json and o['ctype'] != 'application/json':
                    return ('%s: serialized JSON text labelled %s' % (what, o['ctype']), 'label-json')
                if not stripped_json and '<html' in t.encode('utf8')[:168].decode('utf8', 'replace') and not ((t[:1] == '{' and t[-1:] == '}') or (t[:1] == '[' and t[-1:] == ']')) \
                        and o['ctype'] != 'text/html':
                    return ('%s: HTML document labelled %s' % (what, o['ctype']), 'label-html')
                if not ((t[:1] == '{' and t[-1:] == '}') or (t[:1] == '[' and t[-1:] == ']')) and '<html' not in t[:168] and o['ctype'] != 'text/plain':
                    return ('%s: plain text labelled %s' % (what, o['ctype']), 'label-plain')
                if not o['body_is_input']:
                    return ('%s: the text was not sent unchanged' % what, 'text-changed')
            elif isinstance(spec, list) and spec[0] in ('dict', 'list', 'tuple', 'mapping', 'set'):
                want_html = f == 'html' or (f == 'absent' and o['best'] == 'text/html')
                if want_html:
                    if o['ctype'] != 'text/html' or not o['has_table']:
                        return ('%s: HTML was asked for, got %s' % (what, o['ctype']), 'table')
                    if o['n_html_open'] != 1 or o['n_html_close'] != 1 or o['after_close']:
                        return ('%s: the page is not ONE HTML document (%d <html, %d </html>, %d characters after the end): an '
                                'earlier response is inside it' % (what, o['n_html_open'], o['n_html_close'], o['after_close']), 'table-page')
                else:
                    if o['ctype'] != 'application/json' or o['parse_error']:
                        return ('%s: expected JSON, got %s %s' % (what, o['ctype'], o['parse_error'] or ''), 'json')
                    if native(spec) and o['parsed'] != native_value(spec):
                        return ('%s: JSON parses to %r, the value is %r' % (what, o['parsed'], native_value(spec)), 'roundtrip')
                    if not matches(spec, o['parsed']):
                        return ('%s: JSON parses to %r: sequences and sets must be arrays, mappings objects' % (what, o['parsed']), 'structure')
        elif isinstance(spec, list) and spec[0] == 'oddkeys':
            continue                  # the JSON renderers' clauses are about JSON-native data (string keys)
        else:
            dev = rq['render'] != 'json'
            is_native = native(spec)
            if is_native or dev or serialisable(spec):
                if o['exc'] or o['status'] != 200:
                    return ('%s: status %s %s' % (what, o['status'], o['exc'] or ''), 'json-not-200')
                if o['parse_error']:
                    return ('%s: invalid JSON: %s' % (what, o['parse_error']), 'invalid-json')
                if is_native and o['parsed'] != native_value(spec):
                    return ('%s: JSON parses to %r, the value is %r' % (what, o['parsed'], native_value(spec)), 'roundtrip')
                if not matches(spec, o['parsed']):
                    return ('%s: JSON parses to %r: sequences and sets must be arrays, mappings objects' % (what, o['parsed']), 'structure')
    return None


def gen_case(rng, tier):
    tab = rng.random() < 0.25
    value = gen_tabular(rng) if tab else gen_value(rng)
    reqs = []
    for _ in range(5 if tier == 'quick' else 12):
        render = rng.choice(['basic', 'basic', 'basic', 'json', 'json_dev', 'json_stream', 'jsonp'])
        q = rng.choice(['', '', 'format=json', 'format=html', 'format=', 'x=1'])
        if render == 'jsonp':
            q = rng.choice(['callback=cb', 'callback=my.fn', ''])
        reqs.append({'render': render, 'query': q, 'accept': rng.choice(ACCEPTS)})
        if rng.random() < 0.2:
            reqs[-1]['form'] = rng.choice(['format=csv', 'format=html', 'format=json&x=1', 'callback=evil', 'name=x&format=xml'])
    doc = rng.choice([None, None, 'List all the things.', 'First line.\n\n    Indented details\n    of the endpoint.\n', '',
                      '   ', 'Ends with a newline\n', '<b>markup</b> & "quotes" in one line', '\n  starts with a newline'])
    return {'value': value, 'tabular': tab, 'requests': reqs, 'doc': doc}


def shrink(case):
    return case


def run(rep, b, tier, seed, only_cases=None):
    rep.shrink_module = None
    rng = random.Random(seed * 217645177 + 17)
    corpus = [c['case'] if 'case' in c else c for c in core.load_corpus('C17')]
    cases = list(only_cases) if only_cases is not None else corpus + \
        [{'value': ['s', t], 'tabular': False, 'requests': [{'render': 'basic', 'query': '', 'accept': None}, {'render': 'basic', 'query': 'format=html', 'accept': 'text/html'}]} for t in TEXTS] + \
        [{'value': ['b', t], 'tabular': False, 'requests': [{'render': 'basic', 'query': '', 'accept': None}]} for t in TEXTS] + \
        [{'value': ['oddkeys', k], 'tabular': False,
          'requests': [{'render': 'basic', 'query': q, 'accept': a} for q in ('', 'format=json') for a in (None, 'application/json', '*/*', 'text/html')]}
         for k in ('int', 'float', 'bool', 'none', 'tuple', 'mixed', 'mixed_nested', 'bytes')] + \
        [{'value': v, 'tabular': False, 'requests': [{'render': r, 'query': 'callback=cb' if r == 'jsonp' else '', 'accept': None}
                                                     for r in ('basic', 'json', 'json_dev', 'json_stream', 'jsonp')]}
         for v in (['set', [['s', 'draft'], ['i', 3]]], ['set', [['s', 'a'], ['s', 'b'], ['bool', True]]], ['set', [['i', 7], ['s', '']]],
                   ['dict', [['tags', ['set', [['s', 'x'], ['i', 0]]]]]], ['list', [['set', [['s', 'é'], ['i', -1]]]]])] + \
        [gen_case(rng, tier) for _ in range(500 if tier == 'quick' else 5000)]
    rep.rule = ('renderlab: endpoints with 8 docstring shapes (none, one line, multi-line, empty, blank, markup); endpoint results from {str, bytes (%d texts: JSON-like, HTML-like incl. a 168-byte doctype boundary, plain, '
                'empty, non-ASCII), int, float, bool, None, nested dict/list/tuple/set to depth 3, custom Mapping, datetime, objects with '
                'to_dict/asdict/isoformat (date, time, own types), plain objects, generators} and tabular shapes; 8 mappings whose keys are not all strings (int, float, bool, None, tuple, bytes, mixed) through render_basic (oracle only: 200 and valid JSON); renderers render_basic / render_json / render_json_dev / '
                'streaming JSON / JSONP with callback; format in {absent, json, html, empty, other}; %d Accept headers; status, '
                'Content-Type, parsed body compared with Model/Render.v and the oracle. non-trivial = container values.'
                % (len(TEXTS), len(ACCEPTS)))
    rep.assumptions = ['stdlib json emits valid JSON that parses back to JSON-native input (excluding NaN/Infinity, non-string keys)',
                       'boltons Table/TabularRender builds a table for tabular shapes (O10); other nestings under HTML are outside the clause',
                       "werkzeug's best_match over ['text/html', 'application/json'] is an input of the model"]
    obs = core.run_impl_workers('c17', cases)[0]
    lines, index = [], []
    for i, (c, o) in enumerate(zip(cases, obs)):
        if isinstance(o, dict) and '_harness_exception' in o:
            rep.broken('harness exception on implementation side', {'case': c, 'obs': o})
            continue
        if isinstance(c['value'], list) and c['value'][0] == 'oddkeys':
            continue                      # outside the model (its mappings are string-keyed): oracle only
        for k, (rq, r) in enumerate(zip(c['requests'], o)):
            best = sexp.some(r['best']) if r['best'] is not None else 'None'
            lines.append('renderlab ' + sexp.dumps([to_model(c['value']), fmt_of(rq['query']), best, rq['render'] != 'json']))
            index.append((i, k))
    model_out = None
    if b.driver_ok:
        try:
            model_out = core.run_model(lines)
        except Exception as e:  # noqa
            rep.broken('model renderlab is not executable: %s' % e)
    else:
        rep.broken('model renderlab is not executable (extraction or driver build failed)')
    ndiff = 0
    if model_out is not None:
        for (i, k), line in zip(index, model_out):
            t = sexp.loads(line)
            c, rq, r = cases[i], cases[i]['requests'][k], obs[i][k]
            has_gen = 'gen' in json.dumps(c['value'])
            ok, why = True, ''
            if rq['render'] == 'basic':
                m = t[0]
                if isinstance(m, list) and m[0] == b'raise':
                    ok = r['status'] == 500 or r['exc'] is not None
                elif m == b'str':
                    ok = r['status'] == 200 and r['ctype'] == 'text/plain'
                elif m == b'table':
                    ok = (r['status'] == 200 and r['ctype'] == 'text/html') or not c.get('tabular')
                elif m[0] == b'text':
                    ok = r['status'] == 200 and r['ctype'] == m[1].decode() and r['body_is_input']
                elif m[0] == b'json':
                    ok = r['status'] == 200 and r['ctype'] == 'application/json' and not r['parse_error'] and \
                        same_json(json_of_model(m[1]), r['parsed'], has_gen)
                why = 'render_basic model %s' % sexp.dumps(m)[:200]
            else:
                m = t[1]
                if m[0] == b'raise':
                    ok = r['status'] == 500 or r['exc'] is not None
                else:
                    ok = r['status'] == 200 and not r['parse_error'] and same_json(json_of_model(m[1]), r['parsed'], has_gen)
                why = 'normalise model %s' % sexp.dumps(m)[:200]
            if not ok:
                ndiff += 1
                if ndiff <= 5:
                    rep.broken('correspondence renderlab: %s %s: %s; implementation %s %s %r %s' % (
                        json.dumps(c['value'])[:200], rq, why, r['status'], r['ctype'], r['parsed'] if r['parsed'] is not None else r['body_head'], r['parse_error'] or ''),
                        {'case': dict(c, requests=[rq])})
            else:
                rep.traces += 1
    for c, o in zip(cases, obs):
        if isinstance(o, dict) and '_harness_exception' in o:
            continue
        v = oracle(c, o)
        if v:
            rep.violation(v[0], {'case': c, 'signature': v[1], 'lab': 'renderlab'})
        for rq in c['requests']:
            rep.count('render.' + rq['render'])
        rep.count('value.' + (c['value'] if isinstance(c['value'], str) else c['value'][0]))
        rep.evaluations += len(c['requests']) - 1
        rep.case(json.dumps(c, sort_keys=True), nontrivial=isinstance(c['value'], list) and c['value'][0] in ('dict', 'list', 'tuple', 'set', 'mapping'))
    rep.samples = cases[-2:]


def replay(rep, b, path):
    j = json.load(open(path))
    run(rep, b, 'quick', 0, only_cases=[j['case']])
