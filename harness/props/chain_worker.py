from harness import chainlab


def impl(case):
    return chainlab.impl(case)
