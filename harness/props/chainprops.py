"""C01-C04: chainlab correspondence + the four direct oracles.

The oracles restate the property texts over the *configuration* and the
*implementation's recorded behaviour* only (no model involved): they are used
to decide whether a model/implementation difference or a broken proof is a
concrete violation, and they also run on every generated case."""
import json
import random

from harness import chainlab, core, lab, sexp

RESERVED = ['request', '_application', '_route', '_dispatch_state', 'context', 'next']
B4 = ['request', '_application', '_route', '_dispatch_state']
FUNCS = (('request', 'q', 'provides'), ('endpoint', 'e', 'endpoint_provides'), ('render', 'r', 'render_provides'))


# ------------------------------------------------------------------ declarative restatement
def argnames(sig):
    return list(sig['pos']) + list(sig['kwonly'])


def required(sig):
    return [n for n in argnames(sig) if n not in sig['defaulted']]


def merge_lists(outer_list, inner_list):
    """outer (binding application) list first, then the inner one's; a unique type already present is not
    added again (ValueError if it is not reorderable)."""
    if outer_list is None or inner_list is None:
        return None
    out = list(outer_list)
    for m in inner_list:
        if m['unique'] and any(o['id'] == m['id'] for o in out):
            if m['reorderable']:
                continue
            return None
        out.append(m)
    return out


def merged(cfg):
    m1 = merge_lists(cfg['mws'], cfg['route_mws'])
    if cfg.get('outer'):
        return merge_lists(cfg['outer']['mws'], m1)
    return m1


NULL_EP = {'pos': list(B4), 'posonly': 0, 'kwonly': [], 'defaulted': []}
NULL_RN = {'pos': ['context'], 'posonly': 0, 'kwonly': [], 'defaulted': []}


def construction_views(cfg):
    """every route that is bound while the configuration is constructed, in construction order:
    (name, url, resources, mws, endpoint sig, render sig).  With an outer application these are the inner
    application's null route and route, then the outer null route and the re-bound route."""
    inner_null = ('null', ['_ignored'], list(cfg['resources']), list(cfg['mws']), NULL_EP, NULL_RN)
    inner_route = ('route', list(cfg['url']), list(cfg['resources']) + list(cfg['route_resources']),
                   merge_lists(cfg['mws'], cfg['route_mws']), cfg['endpoint']['sig'], cfg['render']['sig'])
    if not cfg.get('outer'):
        return [inner_null, inner_route]
    o = cfg['outer']
    outer_null = ('null', ['_ignored'], list(o['resources']), list(o['mws']), NULL_EP, NULL_RN)
    nested = ('route', list(o['prefix_url']) + list(cfg['url']),
              list(o['resources']) + list(cfg['resources']) + list(cfg['route_resources']), merged(cfg),
              cfg['endpoint']['sig'], cfg['render']['sig'])
    return [('inner-null',) + inner_null[1:], ('inner-route',) + inner_route[1:], outer_null, nested]


def views(cfg):
    """the two routes a chainlab application SERVES: its null route and the (possibly re-bound) route"""
    return [v for v in construction_views(cfg) if v[0] in ('null', 'route')]


def all_resources_reserved(cfg):
    out = any(r in RESERVED for r in cfg['resources'])
    if cfg.get('outer'):
        out = out or any(r in RESERVED for r in cfg['outer']['resources'])
    return out


def offers(url, resources, mws):
    out = [(n, 'url') for n in url] + [(n, 'builtin') for n in RESERVED] + [(n, 'resource') for n in sorted(set(resources))]
    for m in mws:
        for _, ph, tup in FUNCS:
            out += [(n, 'mw%d.%s' % (m['inst'], tup)) for n in m[tup]]
    return out


def c04_defects(cfg):
    """list of (kind, must_be_NameError) for everything C04 says must be rejected at construction"""
    out = []
    if all_resources_reserved(cfg):
        out.append(('reserved name as application resource', True))
    for name, url, resources, mws, ep, rn in construction_views(cfg):
        if mws is None:
            continue
        if len(url) != len(set(url)):
            continue                      # a pattern binding one name twice is an invalid pattern (C05), not a source conflict
        names = [n for n, _ in offers(url, resources, mws)]
        dups = sorted(set(n for n in names if names.count(n) > 1))
        if dups:
            out.append(('%s: name(s) %s offered by more than one source' % (name, dups), True))
        for m in mws:
            for f, ph, tup in FUNCS:
                s = m.get(f)
                if s is not None and (not argnames(s) or argnames(s)[0] != 'next'):
                    out.append(('%s: middleware %d.%s does not take next first' % (name, m['inst'], f), False))
        if 'next' in argnames(ep) or 'next' in argnames(rn):
            out.append(('%s: endpoint/render takes next' % name, True))
        for m in mws:
            for f in ('request', 'endpoint'):
                s = m.get(f)
                if s is not None and 'context' in required(s):
                    out.append(('%s: middleware %d.%s requires context outside the render phase' % (name, m['inst'], f), True))
        if 'context' in required(ep):
            out.append(('%s: endpoint requires context' % name, True))
    return out


def chain_of(mws, f, final_sig, final_name):
    tup = dict((a, c) for a, b, c in FUNCS)[f]
    ph = dict((a, b) for a, b, c in FUNCS)[f]
    out = [(['mw', ph, m['inst']], m[f], m[tup]) for m in mws if m.get(f) is not None]
    if final_sig is not None:
        out.append((final_name, final_sig, []))
    return out


def avail_table(url, resources, mws, ep, rn):
    """[(fid, sig, available names)] for every function of the route, from the property text"""
    base = set(url) | set(resources) | set(B4)
    req_all = set()
    for m in mws:
        if m.get('request') is not None:
            req_all |= set(m['provides'])
    table = []
    sofar = set()
    for fid, sig, prov in chain_of(mws, 'request', None, None):
        table.append((fid, sig, base | {'next'} | sofar))
        sofar |= set(prov)
    sofar = set()
    for fid, sig, prov in chain_of(mws, 'endpoint', ep, 'endpoint'):
        table.append((fid, sig, base | req_all | sofar | ({'next'} if fid != 'endpoint' else set())))
        sofar |= set(prov)
    sofar = set()
    for fid, sig, prov in chain_of(mws, 'render', rn, 'render'):
        table.append((fid, sig, base | req_all | {'context'} | sofar | ({'next'} if fid != 'render' else set())))
        sofar |= set(prov)
    return table


def unresolved(view):
    name, url, resources, mws, ep, rn = view
    out = []
    for fid, sig, avail in avail_table(url, resources, mws, ep, rn):
        for p in required(sig):
            if p not in avail:
                out.append((fid, p))
    return out


def cyclic(view):
    """clastic's undocumented cycle test: provided name -> positional parameters of the providing function"""
    name, url, resources, mws, ep, rn = view
    edges = {}
    for m in mws:
        for f, ph, tup in FUNCS:
            s = m.get(f)
            for p in m[tup]:
                edges.setdefault(p, set()).update(s['pos'] if s is not None else [])
    edges.setdefault('__endpoint_response__', set()).update(ep['pos'])
    alive = set(edges)
    for v in edges.values():
        alive |= v
    changed = True
    while changed:
        changed = False
        for n in list(alive):
            if not any(t in alive for t in edges.get(n, ())):
                alive.discard(n)
                changed = True
    return bool(alive)


FRAMEWORK_CALL_ERRORS = ('unexpected keyword argument', 'required positional argument', 'required keyword-only argument',
                         'positional-only arguments passed as keyword', 'positional argument', 'is not defined',
                         'multiple values for')


def has_posonly_in_scope(cfg):
    for name, url, resources, mws, ep, rn in views(cfg):
        if mws is None:
            continue
        for fid, sig, avail in avail_table(url, resources, mws, ep, rn):
            if any(p in avail for p in sig['pos'][:sig['posonly']]):
                return True
    return False


def oracle_c01(cfg, obs):
    vs = construction_views(cfg)
    if any(v[3] is None for v in vs):
        return None                       # unique non-reorderable type twice: ValueError, outside C01
    if c04_defects(cfg):
        return None                       # C04's rejections
    if any(cyclic(v) for v in vs):
        if obs['construct'] != 'ok':
            return None                   # either outcome accepted for cyclic configurations
    else:
        unres = [u for v in vs for u in unresolved(v)]
        if unres and obs['construct'] == 'ok':
            return ('construction succeeded although %r cannot be supplied' % (unres[:3],), 'accepted-unresolvable')
        if unres and obs['construct'] != 'NameError':
            return ('unsatisfiable parameter %r reported as %s, not NameError' % (unres[0], obs['construct']), 'wrong-class')
        if not unres and obs['construct'] != 'ok':
            return ('construction failed with %s although every required parameter has a source' % obs['construct'],
                    'rejected-resolvable')
    if obs['construct'] != 'ok':
        return None
    for which in ('null', 'route'):
        o = obs[which]
        if o['outcome'][0] == 'exc' and o['outcome'][1] in ('TypeError', 'NameError', 'UnboundLocalError') and \
                any(s in (o.get('detail') or '') for s in FRAMEWORK_CALL_ERRORS):
            sig = 'param_kind=positional_only' if ('positional-only' in o['detail'] and has_posonly_in_scope(cfg)) \
                else 'request-time-call-error'
            return ('accepted configuration, request to the %s route failed in a framework call: %s' % (which, o['detail']), sig)
    return None


def expected_value(n, view, cfg, provider):
    name, url, resources, mws, ep, rn = view
    if n == 'next':
        return 'NEXT'
    if n in url:
        return 'U:' + n
    if n in B4:
        return 'B:' + n
    if n in resources:
        return 'R:' + n
    if n in provider:
        return provider[n]
    return None


def merge_must_fail(cfg, obs):
    """a unique, non-reorderable middleware type met twice while merging: construction must fail (ValueError)"""
    if obs['construct'] == 'ok' and any(v[3] is None for v in construction_views(cfg)):
        return ('construction succeeded although a unique non-reorderable middleware type occurs twice on the way from the '
                'outermost application to the route (ValueError expected)', 'merge-error-missing')
    return None


def oracle_c02(cfg, obs):
    if obs['construct'] != 'ok':
        return None
    if merge_must_fail(cfg, obs):
        return None                       # C03's business
    if has_posonly_in_scope(cfg):
        return None                       # known finding F2 (C01)
    for view in views(cfg):
        name, url, resources, mws, ep, rn = view
        o = obs[name]
        if o['outcome'][0] == 'exc' and o['outcome'][1] in ('TypeError', 'NameError', 'UnboundLocalError') and \
                any(s in (o.get('detail') or '') for s in FRAMEWORK_CALL_ERRORS):
            return ('%s route: a function could not be called with the values of its sources at all: %s' % (name, o['detail']),
                    'call-failed')
        if not o['repeat_same']:
            return ('two identical requests to the %s route were served differently' % name, 'request-state-leak')
        provider = {}
        for m in mws:
            for f, ph, tup in FUNCS:
                if m.get(f) is not None or True:
                    for p in m[tup]:
                        provider[p] = 'P%s%d:%s' % (ph, m['inst'], p)
        table = dict((json.dumps(fid), (sig, avail)) for fid, sig, avail in avail_table(url, resources, mws, ep, rn))
        ctx = None
        for ev in o['trace']:
            if ev[0] == 'leave' and ev[1] == 'endpoint' and ev[2][0] == 'ctx':
                ctx = ev[2][1]
            if ev[0] == 'leave' and isinstance(ev[1], list) and ev[1][1] == 'e' and ev[2][0] == 'ctx':
                ctx = ev[2][1]
        for ev in o['trace']:
            if ev[0] != 'enter':
                continue
            key = json.dumps(ev[1])
            if key not in table:
                return ('function %s was called but is not part of the %s route' % (ev[1], name), 'foreign-function')
            sig, avail = table[key]
            got = dict((k, v) for k, v in ev[2])
            for n in argnames(sig):
                if n in avail:
                    want = ctx if n == 'context' else expected_value(n, view, cfg, provider)
                    if n not in got:
                        if n in sig['pos'][:sig['posonly']]:
                            continue
                        return ('%s route: %s did not receive %r although a source offers it (default used)' % (name, ev[1], n),
                                'default-instead-of-source')
                    if want is not None and got[n] != want:
                        return ('%s route: %s received %r = %s, its source holds %s' % (name, ev[1], n, got[n], want),
                                'wrong-value')
                elif n in got:
                    return ('%s route: %s received %r = %s although no source offers it there' % (name, ev[1], n, got[n]),
                            'value-without-source')
    return None


def expected_trace(view, scripts):
    """independent restatement of the onion: returns (outcome, events) with events as the recorder writes them
    (kwargs omitted)"""
    name, url, resources, mws, ep, rn = view
    ms = dict(((ph, inst), s) for ph, inst, s in scripts.get('mw', []))

    def layer(chain, final):
        if not chain:
            return final()
        fid = chain[0]
        s = ms.get((fid[1], fid[2]), ['call', 'pass'])
        if s[0] == 'raise':
            o = ['exc', s[1]]
            return o, [['enter', fid], ['leave', fid, o]]
        if s[0] == 'early':
            o = ['resp', s[1]]
            return o, [['enter', fid], ['leave', fid, o]]
        inner, tr = layer(chain[1:], final)
        post = s[1]
        o = inner
        if isinstance(post, list):
            if post[0] == 'swallow' and inner[0] == 'exc':
                o = ['resp', post[1]]
            elif post[0] == 'raise_after' and inner[0] != 'exc':
                o = ['exc', post[1]]
            elif post[0] == 'replace' and inner[0] != 'exc':
                o = ['resp', post[1]]
        return o, [['enter', fid]] + tr + [['leave', fid, o]]

    def ep_final():
        s = scripts.get('ep', ['ctx', 'CTX'])
        if name == 'null':
            return ['resp', '404'], []
        o = ['exc', s[1]] if s[0] == 'raise' else [s[0], s[1]]
        return o, [['enter', 'endpoint'], ['leave', 'endpoint', o]]

    def rn_final():
        s = scripts.get('rn', ['resp', 'RN'])
        if name == 'null':
            return None, []
        o = ['exc', s[1]] if s[0] == 'raise' else (['ctx', s[1]] if s[0] == 'non' else ['resp', s[1]])
        return o, [['enter', 'render'], ['leave', 'render', o]]

    def proc():
        o1, t1 = layer([f for f, _, _ in chain_of(mws, 'endpoint', None, None)], ep_final)
        if o1[0] != 'ctx':
            return o1, t1
        o2, t2 = layer([f for f, _, _ in chain_of(mws, 'render', None, None)], rn_final)
        return o2, t1 + t2
    return layer([f for f, _, _ in chain_of(mws, 'request', None, None)], proc)


def oracle_c03(cfg, obs):
    if obs['construct'] != 'ok':
        return None
    if merge_must_fail(cfg, obs):
        return merge_must_fail(cfg, obs)
    if has_posonly_in_scope(cfg):
        return None                       # known finding F2 (C01): the call itself fails, possibly swallowed by a layer
    for view in views(cfg):
        name = view[0]
        o = obs[name]
        if o['outcome'][0] == 'exc' and any(s in (o.get('detail') or '') for s in FRAMEWORK_CALL_ERRORS):
            return None                   # C01's business
        want_o, want_t = expected_trace(view, cfg.get('scripts') or {})
        got_t = [ev[:2] if ev[0] == 'enter' else ev for ev in o['trace']]
        if got_t != want_t:
            k = 0
            while k < min(len(got_t), len(want_t)) and got_t[k] == want_t[k]:
                k += 1
            return ('%s route: the functions did not run as the documented onion: event %d is %s, expected %s' % (
                name, k, got_t[k] if k < len(got_t) else 'missing', want_t[k] if k < len(want_t) else 'nothing'), 'onion')
        if want_o[0] == 'ctx':
            want_o = ['exc', 'TypeError']
        if want_o[0] == 'exc' and want_o[1].startswith('Http'):
            want_o = ['resp', want_o[1][4:]]      # a raised HTTPException that nobody swallowed is answered with its own status
        if o['outcome'] != want_o:
            return ('%s route: outcome %s, the outermost layer produced %s' % (name, o['outcome'], want_o), 'outcome')
    return None


def oracle_c04(cfg, obs):
    vs = construction_views(cfg)
    if any(v[3] is None for v in vs):
        return None
    d = c04_defects(cfg)
    if not d:
        return None
    if obs['construct'] == 'ok':
        return ('construction succeeded although: %s' % d[0][0], 'accepted-defective')
    if all(ne for _, ne in d) and obs['construct'] != 'NameError' and not any(cyclic(v) for v in vs):
        return ('%s was rejected with %s, not NameError' % (d[0][0], obs['construct']), 'wrong-class')
    return None


ORACLES = {'C01': oracle_c01, 'C02': oracle_c02, 'C03': oracle_c03, 'C04': oracle_c04}


# ------------------------------------------------------------------ comparison with the model
def compare(cfg, obs, model_line):
    """None if the model's prediction equals the implementation's observation, else a description"""
    try:
        m = chainlab.model_to_py(sexp.loads(model_line))
    except Exception as e:  # noqa
        return 'model output unreadable: %s (%s)' % (model_line[:80], e)
    if m == 'BAD-INPUT':
        return 'model rejected the input encoding'
    mc = m[0][1]
    if mc != obs['construct']:
        return 'construct: model %s, implementation %s' % (mc, obs['construct'])
    if mc != 'ok':
        return None
    for idx, which in ((1, 'null'), (2, 'route')):
        mo, mt, ferr = chainlab.canon_model_run(m[idx], drop_final=(which == 'null'))
        o = obs[which]
        if ferr:
            # the model predicts a framework-level calling error: the implementation must fail too
            if o['outcome'][0] == 'exc' and o['outcome'][1] in ('TypeError', 'NameError'):
                continue
            if any(isinstance(x[2][1], list) and x[2][1][0] == 'swallow' for x in (cfg.get('scripts') or {}).get('mw', [])
                   if x[2][0] == 'call'):
                continue                  # a swallowing middleware hid the TypeError; the oracle of C01 sees it in other cases
            return '%s: model predicts a framework call error %s, implementation %s' % (which, ferr[0], o['outcome'])
        if mo != o['outcome']:
            return '%s: outcome model %s, implementation %s' % (which, mo, o['outcome'])
        if mt != o['trace']:
            k = 0
            while k < min(len(mt), len(o['trace'])) and mt[k] == o['trace'][k]:
                k += 1
            return '%s: trace differs at event %d: model %s, implementation %s' % (
                which, k, mt[k] if k < len(mt) else None, o['trace'][k] if k < len(o['trace']) else None)
    return None


# ------------------------------------------------------------------ exhaustive small scope
def small_scope(limit=None):
    """every configuration with one application middleware (request function only) over a
    two-name alphabet: each name absent / required / defaulted / keyword-only in the middleware
    and in the endpoint, provides in {(), (g,)}, url in {(), (a,)}, resource in {(), (b,)}"""
    out = []
    states = ['absent', 'req', 'opt', 'kwo', 'kwo_opt']
    names = ['a', 'b', 'g']

    def mk(first, assign):
        pos = list(first) + [n for n in names if assign[n] in ('req',)] + [n for n in names if assign[n] == 'opt']
        kwo = [n for n in names if assign[n] in ('kwo', 'kwo_opt')]
        dfl = [n for n in names if assign[n] in ('opt', 'kwo_opt')]
        return {'pos': pos, 'posonly': 0, 'kwonly': kwo, 'defaulted': dfl}
    import itertools
    for url in ([], ['a']):
        for res in ([], ['b']):
            for prov in ([], ['g']):
                for ma in itertools.product(states[:3], repeat=2):
                    for ea in itertools.product(states, repeat=3):
                        msig = mk(['next'], {'a': ma[0], 'b': ma[1], 'g': 'absent'})
                        esig = mk([], dict(zip(names, ea)))
                        out.append({'resources': res, 'route_resources': [], 'url': url,
                                    'mws': [{'inst': 0, 'id': 0, 'unique': True, 'reorderable': True, 'request': msig,
                                             'endpoint': None, 'render': None, 'provides': prov,
                                             'endpoint_provides': [], 'render_provides': []}],
                                    'route_mws': [], 'endpoint': {'sig': esig, 'kind': 'plain'},
                                    'render': {'sig': {'pos': ['context'], 'posonly': 0, 'kwonly': [], 'defaulted': []},
                                               'kind': 'plain'},
                                    'scripts': {'mw': [], 'ep': ['ctx', 'CTX'], 'rn': ['resp', 'RN']}})
    if limit and len(out) > limit:
        r = random.Random(1)
        out = r.sample(out, limit)
    return out


def exotic_cases():
    """every name the generated code uses itself, offered by each kind of source and consumed in every phase"""
    out = []

    def sig(pos):
        return {'pos': pos, 'posonly': 0, 'kwonly': [], 'defaulted': []}
    for x in chainlab.EXOTIC:
        for source in ('resource', 'route_resource', 'url', 'provides'):
            mws = [{'inst': 0, 'id': 0, 'unique': True, 'reorderable': True, 'request': sig(['next']),
                    'endpoint': None, 'render': None, 'provides': [x] if source == 'provides' else [],
                    'endpoint_provides': [], 'render_provides': []},
                   {'inst': 1, 'id': 1, 'unique': True, 'reorderable': True, 'request': sig(['next', x]),
                    'endpoint': sig(['next', x]), 'render': sig(['next', x, 'context']), 'provides': [],
                    'endpoint_provides': [], 'render_provides': []}]
            out.append({'resources': [x] if source == 'resource' else [], 'route_resources': [x] if source == 'route_resource' else [],
                        'url': [x] if source == 'url' else [], 'url_multi': [], 'mws': [mws[0]], 'route_mws': [mws[1]],
                        'endpoint': {'sig': sig([x]), 'kind': 'plain'}, 'render': {'sig': sig(['context', x]), 'kind': 'plain'},
                        'scripts': {'mw': [], 'ep': ['ctx', 'CTX'], 'rn': ['resp', 'RN'], 'positional': []}})
    return out


# ------------------------------------------------------------------ driver
def impl(case):
    return chainlab.impl(case)


def shrink(case):
    prop = case.get('_prop', 'C01')
    orc = ORACLES[prop]

    def fails(c):
        try:
            return orc(c, chainlab.impl(c)) is not None
        except Exception:
            return False
    cur = json.loads(json.dumps(case))
    if not fails(cur):
        return case
    progress = True
    while progress:
        progress = False
        for lst in ('mws', 'route_mws'):
            for i in range(len(cur[lst])):
                c = json.loads(json.dumps(cur))
                inst = c[lst][i]['inst']
                del c[lst][i]
                c['scripts']['mw'] = [s for s in c['scripts'].get('mw', []) if s[1] != inst]
                if fails(c):
                    cur, progress = c, True
                    break
        if cur.get('outer'):
            c = json.loads(json.dumps(cur))
            drop = [m['inst'] for m in c['outer']['mws']]
            del c['outer']
            c['scripts']['mw'] = [s for s in c['scripts'].get('mw', []) if s[1] not in drop]
            if fails(c):
                cur, progress = c, True
            else:
                for i in range(len(cur['outer']['mws'])):
                    c = json.loads(json.dumps(cur))
                    inst = c['outer']['mws'][i]['inst']
                    del c['outer']['mws'][i]
                    c['scripts']['mw'] = [s for s in c['scripts'].get('mw', []) if s[1] != inst]
                    if fails(c):
                        cur, progress = c, True
                        break
        if cur.get('decoy'):
            c = json.loads(json.dumps(cur))
            del c['decoy']
            if fails(c):
                cur, progress = c, True
        for key in ('resources', 'route_resources', 'url'):
            for i in range(len(cur[key])):
                c = json.loads(json.dumps(cur))
                del c[key][i]
                if fails(c):
                    cur, progress = c, True
                    break
        if cur['scripts'].get('mw'):
            c = json.loads(json.dumps(cur))
            c['scripts'] = {'mw': [], 'ep': ['ctx', 'CTX'], 'rn': ['resp', 'RN']}
            if fails(c):
                cur, progress = c, True
    return cur


def run(prop, rep, b, tier, seed, only_cases=None):
    rep.shrink_module = 'chainprops'
    rng = random.Random(seed * 104729 + 11)
    n_rand = 1500 if tier == 'quick' else 12000
    n_def = 25 if tier == 'quick' else 150
    cases = []
    for c in core.load_corpus(prop) + (core.load_corpus('chain') if prop != 'chain' else []):
        cases.append(c['case'] if 'case' in c else c)
    ncorpus = len(cases)
    if only_cases is not None:
        cases = list(only_cases)
    else:
        cases += small_scope(1200 if tier == 'quick' else None)
        cases += exotic_cases()
        for _ in range(n_rand):
            cases.append(chainlab.gen_config(rng))
        def valid_base(cfg):
            vs = construction_views(cfg)
            return (all(v[3] is not None for v in vs) and not c04_defects(cfg) and not any(unresolved(v) for v in vs)
                    and not any(cyclic(v) for v in vs))
        for d in chainlab.DEFECTS:
            for k in range(n_def):
                # half of each stream injects the defect into an otherwise ACCEPTABLE configuration (so that it is the only
                # reason to reject it), half into an arbitrary one
                cases.append(chainlab.gen_config(rng, defect=d, valid_base=valid_base if k % 2 == 0 else None))
        for _ in range(150 if tier == 'quick' else 1500):
            cases.append(chainlab.gen_config(rng, posonly=True))
    for c in cases:
        c['_prop'] = prop
    seeds = (0,) if tier == 'quick' else (0, 1, 2, 3, 4, 5, 6, 7)
    rep.rule = ('chainlab: application = 0-2 application-level + 0-2 route-level middlewares, in a third of the cases embedded '
                'under a prefix (with URL bindings) in an outer application with 0-2 middlewares and resources of its own; in '
                'cases with route-level resources a POST-only decoy route in front that binds one of those names from the URL '
                'and matches the same paths; (second instances of a type, '
                'unique/reorderable flags), each with any subset of request/endpoint/render functions, signatures with '
                'required/defaulted/keyword-only(/positional-only) parameters over {a,b,c,d,e,f}+built-ins, three provides '
                'tuples, URL bindings, application and route resources, endpoint/render of 9 callable kinds (incl. a functools.wraps wrapper around a function bound earlier and a class-based clastic_decorator wrapper), renders optionally produced by the render factory of the application, in a quarter of the cases one name is one the generated code uses itself (endpoint, render, funcs, BaseResponse, resp, __traceback_hide__, ...), scripts '
                '(raise before/after - plain exceptions and clastic HTTPExceptions -, early Response, swallow, replace; endpoint ctx/Response/raise; render Response/'
                'non-Response/raise); exhaustive one-middleware scope (%s cases) + random + one stream per C04 defect kind '
                '(%s); the real Application is constructed and sent two requests to the null route and two to the route; '
                'constructor outcome, every recorded keyword set with sentinel values, enter/leave traces compared with '
                'the extracted Coq model; hash seeds %s. non-trivial = accepted configurations with >=1 middleware or '
                'rejected ones.' % ('sampled 1200' if tier == 'quick' else 'all', ', '.join(chainlab.DEFECTS), list(seeds)))
    rep.assumptions = ['boltons FunctionBuilder extracts the declared signature of the seven callable kinds '
                       '(cross-checked: the harness functions have real signatures and record what they receive)',
                       'user middlewares call next() with exactly their declared provides (scripts do so)',
                       'cyclic provider configurations: either constructor outcome accepted (property text)']
    results = core.run_impl_workers('chainprops', cases, hashseeds=seeds)
    obs0 = results[seeds[0]]
    model_out = None
    if b.driver_ok:
        try:
            model_out = core.run_model('chainlab ' + sexp.dumps(chainlab.to_model(c)) for c in cases)
        except Exception as e:  # noqa
            rep.broken('model chainlab is not executable: %s' % e)
    else:
        rep.broken('model chainlab is not executable (extraction or driver build failed)')
    orc = ORACLES[prop]
    ndiff = 0
    for i, c in enumerate(cases):
        o = obs0[i]
        if isinstance(o, dict) and '_harness_exception' in o:
            rep.broken('harness exception on implementation side', {'case': c, 'obs': o})
            continue
        if isinstance(o.get('construct'), str) and o['construct'].startswith('HARNESS'):
            rep.count('skipped.' + o['construct'][:24])
            continue
        for hs in seeds[1:]:
            if results[hs][i] != o:
                rep.violation('behaviour depends on the interpreter hash seed (seed 0 vs %d)' % hs,
                              {'case': c, 'impl_observation': o, 'other': results[hs][i], 'signature': 'hashseed'})
        v = orc(c, o)
        if v:
            rep.violation(v[0], {'case': c, 'impl_observation': o, 'signature': v[1], 'lab': 'chainlab'})
        if model_out is not None:
            d = compare(c, o, model_out[i] if i < len(model_out) else '')
            if d:
                ndiff += 1
                if ndiff <= 5:
                    rep.broken('correspondence chainlab: ' + d, {'case': c, 'model': model_out[i][:1500], 'impl': o})
            else:
                rep.traces += 1
        rep.count('construct.' + str(o['construct']))
        if c.get('defect'):
            rep.count('defect.' + c['defect'])
        nmw = len(c['mws']) + len(c['route_mws']) + (len(c['outer']['mws']) if c.get('outer') else 0)
        rep.count('mws.%d' % nmw)
        if c.get('outer'):
            rep.count('embedded')
        if c.get('decoy'):
            rep.count('decoy')
        rep.case(json.dumps(c, sort_keys=True), nontrivial=(o['construct'] != 'ok' or nmw > 0))
    rep.extra['corpus_cases'] = ncorpus
    rep.samples = [cases[0], cases[-1]] if cases else []


def replay(prop, rep, b, path):
    j = json.load(open(path))
    run(prop, rep, b, 'quick', 0, only_cases=[j['case']])
