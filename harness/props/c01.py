from harness.props import chainprops


def run(rep, b, tier, seed):
    chainprops.run('C01', rep, b, tier, seed)


def replay(rep, b, path):
    chainprops.replay('C01', rep, b, path)
