from harness.props import chainprops


def run(rep, b, tier, seed):
    chainprops.run('C02', rep, b, tier, seed)


def replay(rep, b, path):
    chainprops.replay('C02', rep, b, path)
