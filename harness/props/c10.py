from harness.props import worldprops


def run(rep, b, tier, seed):
    worldprops.run('C10', rep, b, tier, seed)


def replay(rep, b, path):
    worldprops.replay('C10', rep, b, path)
