"""C15 - mwlab: a scenario application with every response kind, served with and without each
built-in middleware (alone and in random stacks); status and decoded body must be identical."""
import gzip
import hashlib
import json
import random

from harness import core, sexp

MWS = ['gzip', 'cache', 'stats', 'profile', 'cookie', 'ctxproc', 'ctxproc_defaults', 'getparam', 'postdata', 'scriptroot']
ACCEPT_ENCODINGS = [None, 'gzip', 'gzip, deflate', 'gzip;q=0', 'deflate, gzip;q=0.0', '*', 'identity', 'identity, *;q=0', 'br',
                    'gzip;q=0.5', 'deflate;q=1.0, gzip;q=0.001', '']
AGENTS = [None, 'Mozilla/5.0 (compatible; MSIE 10.0; Windows NT 6.1; Trident/6.0)', 'curl/8']
# path -> (method, inner kind for the gzip model: full / base / raise, texty)
SCENARIO = {
    '/ok': ('GET', 'full', True), '/bin': ('GET', 'full', False), '/empty': ('GET', 'full', True), '/ctx': ('GET', 'full', False),
    '/redir': ('GET', 'full', True), '/raise404': ('GET', 'raise', True), '/ret403': ('GET', 'base', True),
    '/ret503long': ('GET', 'base', True), '/nb': ('GET', 'raise', True), '/boom': ('GET', 'raise', True),
    '/nowhere': ('GET', 'base', True), '/postonly': ('GET', 'base', True), '/js': ('GET', 'full', True),
    '/stream': ('GET', 'full', True), '/pre': ('GET', 'full', True),
    # endpoints that already vary on something else (content negotiation, personalised pages)
    '/vary_accept': ('GET', 'full', True), '/vary_cookie': ('GET', 'full', True),
    # a download the way werkzeug documents it: wrap_file + direct_passthrough (cannot be buffered)
    '/download': ('GET', 'full', True),
    # a rendered context whose values are present but empty / zero / false
    '/ctxfalsy': ('GET', 'full', False),
    # two pages that carry the same application-chosen ETag (a revision tag) with different bodies
    '/wiki/1': ('GET', 'full', True), '/wiki/2': ('GET', 'full', True),
    # responses that declare no Content-Type at all: a 204, an application-made 304, a body relayed from an upstream that named no type
    '/notype204': ('GET', 'full', False), '/notype304': ('GET', 'full', False), '/notype': ('GET', 'full', False),
    # an endpoint that reads the RAW request body (a webhook checking a signature, an echo service)
    '/rawbody': ('POST', 'full', True),
}
RANGES = [None, None, None, None, 'bytes=0-9', 'bytes=100-', 'bytes=1000000-', 'bytes=10-5', 'lines=1-2', 'bytes=-100', 'bytes=0-0,5-6']
BODIES = [None, ['application/x-www-form-urlencoded', 'a=1&b=two&_prof=&format=html'], ['application/x-www-form-urlencoded', 'p=posted&q=1'],
          ['multipart/form-data; boundary=BOUND', '--BOUND\r\nContent-Disposition: form-data; name="p"\r\n\r\nvalue\r\n--BOUND--\r\n'],
          ['application/json', '{"a": [1, 2, 3]}'], ['text/plain', 'plain body ' * 50],
          # JSON documents that are not objects, and objects whose fields are not scalars
          ['application/json', '[1, 2, 3]'], ['application/json', '"text"'], ['application/json', '42'], ['application/json', 'null'],
          ['application/json', '{"p": null, "q": [1], "x": {"y": 1}}'], ['application/json', '{not json']]
# Cookie headers a client may send whatever the application is (only the signed-cookie middleware looks at them): its cookie's
# name with values that are not what it issued
COOKIES = [None, None, None, 'clastic_cookie=abc?x=1', 'clastic_cookie=a?b', 'clastic_cookie=?', 'clastic_cookie="AAAA?a=b&c"',
           'clastic_cookie=bm90IGEgdGFn?a=MQ==', 'clastic_cookie=kHLTV5Ysb6V8J5y4kU5cG3VfYr?user=ImFkbWluIg==', 'other=1; clastic_cookie=caf\xe9?\xe9=1',
           'clastic_cookie=no-separator', 'clastic_cookie=====?a=====']


def body_for(kind, n):
    if kind == 'text':
        return (b'lorem ipsum dolor sit amet %d ' % n) * (n // 28 + 1)
    r = random.Random(n)
    return bytes(r.getrandbits(8) for _ in range(n))


def build_app(mws):
    from clastic import Application, Response, redirect, POST
    from clastic.errors import NotFound, Forbidden, ServiceUnavailable
    from clastic.render import render_basic
    from clastic import middleware as M
    from clastic.middleware.cookie import SignedCookieMiddleware
    from clastic.middleware.stats import StatsMiddleware

    def ok():
        return Response(body_for('text', 5000), mimetype='text/plain')

    def binr():
        return Response(body_for('random', 4000), mimetype='application/octet-stream')

    def empty():
        return Response('', mimetype='text/plain')

    def ctx():
        return {'a': 'x' * 2000, 'b': [1, 2, 3]}

    def redir():
        return redirect('/ok')

    def raise404():
        raise NotFound('missing ' * 100)

    def ret403():
        return Forbidden('no ' * 5)

    def ret503long():
        return ServiceUnavailable('please come back later, the service is unavailable. ' * 20)

    def nb():
        raise NotFound('nb ' * 200, is_breaking=False)

    def boom():
        raise ValueError('boom ' * 100)

    def js():
        return Response(b'var x = 1; ' * 500, mimetype='application/javascript')

    def stream():
        return Response((b'chunk %d\n' % i for i in range(300)), mimetype='text/plain')

    def pre():
        return Response(b'already encoded ' * 300, mimetype='text/plain', headers={'Content-Encoding': 'identity'})

    def sized(n, kind):
        return Response(body_for(kind, n), mimetype='text/plain' if kind == 'text' else 'application/octet-stream')

    def vary_accept():
        return Response(body_for('text', 3000), mimetype='text/plain', headers={'Vary': 'Accept'})

    def vary_cookie():
        r = Response(body_for('text', 2500), mimetype='text/plain')
        r.vary.add('Cookie')
        r.vary.add('Accept-Language')
        return r

    def ctxfalsy():
        return {'a': 0, 'b': []}

    def wiki(n):
        r = Response(body_for('text', 1500 + 700 * n), mimetype='text/plain')
        r.set_etag('rev-3')
        return r

    def notype(status, body):
        def f():
            r = Response(body, status=status)
            del r.headers['Content-Type']
            return r
        return f

    def rawbody(request):
        data = request.get_data()
        return Response(b'got %d bytes: ' % len(data) + data[:2000], mimetype='text/plain')

    def download(request):
        import io
        from werkzeug.wsgi import wrap_file
        return Response(wrap_file(request.environ, io.BytesIO(body_for('random', 3000))), mimetype='application/octet-stream',
                        direct_passthrough=True)

    inst = {'gzip': lambda: M.GzipMiddleware(), 'cache': lambda: M.HTTPCacheMiddleware(), 'stats': lambda: StatsMiddleware(),
            'profile': lambda: M.SimpleProfileMiddleware(), 'cookie': lambda: SignedCookieMiddleware(secret_key=b'k' * 20),
            'ctxproc': lambda: M.ContextProcessor(),
            # a processor whose names every rendered context of this lab provides itself: with the default overwrite=False it adds nothing
            'ctxproc_defaults': lambda: M.ContextProcessor(defaults={'a': 'DFLT-A', 'b': 'DFLT-B'}), 'getparam': lambda: M.GetParamMiddleware(['q']),
            'postdata': lambda: __import__('clastic.middleware.form', fromlist=['x']).PostDataMiddleware(['p']), 'scriptroot': lambda: __import__('clastic.middleware.url', fromlist=['x']).ScriptRootMiddleware()}
    routes = [('/ok', ok), ('/bin', binr), ('/empty', empty), ('/ctx', ctx, render_basic), ('/redir', redir),
              ('/raise404', raise404), ('/ret403', ret403), ('/ret503long', ret503long), ('/nb', nb), ('/boom', boom), ('/js', js),
              ('/stream', stream), ('/pre', pre), ('/vary_accept', vary_accept), ('/vary_cookie', vary_cookie), ('/download', download), ('/ctxfalsy', ctxfalsy, render_basic), ('/wiki/<n:int>', wiki),
              POST('/rawbody', rawbody), ('/notype204', notype(204, b'')), ('/notype304', notype(304, b'')), ('/notype', notype(200, b'upstream bytes ' * 100)), POST('/postonly', ok), ('/size/<n:int>/<kind>', sized)]
    return Application(routes, middlewares=[inst[m]() for m in mws])


def send(app, rq):
    from harness import wsgi
    headers = {}
    if rq['ae'] is not None:
        headers['Accept-Encoding'] = rq['ae']
    if rq['ua'] is not None:
        headers['User-Agent'] = rq['ua']
    if rq.get('cookie') is not None:
        headers['Cookie'] = rq['cookie']
    if rq.get('range') is not None:
        headers['Range'] = rq['range']
    body = (rq.get('body') or [None, ''])[1].encode('utf8')
    env = wsgi.environ(rq['path'], method=rq['method'], query=rq.get('query', ''), headers=headers, body=body)
    if rq.get('body'):
        env['CONTENT_TYPE'] = rq['body'][0]
    r = wsgi.call(app, env)
    ce = r.header('Content-Encoding')
    body, bad = r.body, None
    if ce == 'gzip' and rq['method'] != 'HEAD':
        try:
            body = gzip.decompress(r.body)
        except Exception as e:
            bad = '%s: %s' % (type(e).__name__, e)
    return {'status': r.code, 'exc': type(r.exc).__name__ if r.exc else None, 'sha': hashlib.sha1(body).hexdigest(), 'len': len(body),
            'sent_len': len(r.body), 'ce': ce, 'clen': r.header('Content-Length'), 'vary': r.header('Vary') or '',
            'gunzip_error': bad, 'raw_sha': hashlib.sha1(r.body).hexdigest()}


def impl(case):
    from boltons.strutils import gzip_bytes
    from harness import wsgi
    base = build_app([])
    app = build_app(case['mws'])
    out = []
    stats_mws = [m for m in app.middlewares if type(m).__name__ == 'StatsMiddleware']
    for rq in case['requests']:
        a = send(base, rq)
        b2 = send(app, rq)
        if case.get('small_stores'):
            # the operator keeps the per-route sample stores small: later hits of the same route and status take the
            # store's replacement branch (as after 16384 hits with the default capacity)
            for m in stats_mws:
                for hits in m.route_hits.values():
                    for res in hits.values():
                        res.resize(1)
        # the inner body as the baseline sends it (for the gzip model: its length and compressed length)
        envb = wsgi.environ(rq['path'], method='GET' if rq['method'] == 'HEAD' else rq['method'], query=rq.get('query', ''),
                            body=(rq.get('body') or [None, ''])[1].encode('utf8'))
        if rq.get('body'):
            envb['CONTENT_TYPE'] = rq['body'][0]
        r = wsgi.call(base, envb)
        out.append({'base': a, 'with': b2, 'inner_len': len(r.body), 'inner_complen': len(gzip_bytes(r.body, 6))})
    return out


def accepts_gzip(ae):
    """RFC 7231 5.3.4, independent of werkzeug: gzip acceptable iff listed (or '*') with q > 0"""
    if ae is None:
        return False          # werkzeug: absent header -> no gzip; an absent header does not ask for gzip either
    best = None
    for part in ae.split(','):
        bits = [x.strip() for x in part.split(';')]
        name = bits[0].lower()
        q = 1.0
        for x in bits[1:]:
            if x.lower().startswith('q='):
                try:
                    q = float(x[2:])
                except ValueError:
                    q = 0.0
        if name == 'gzip':
            return q > 0
        if name == '*':
            best = q
    return bool(best)


def oracle(case, obs):
    for rq, o in zip(case['requests'], obs):
        a, b2 = o['base'], o['with']
        what = '%s %s (Accept-Encoding %r, UA %s) with %s' % (rq['method'], rq['path'], rq['ae'], 'msie' if rq['ua'] and 'MSIE' in rq['ua'] else rq['ua'], case['mws'])
        if b2['exc'] and not a['exc']:
            return ('%s: %s escaped' % (what, b2['exc']), 'escape')
        if b2['gunzip_error']:
            return ('%s: body labelled gzip does not decompress (%s)' % (what, b2['gunzip_error']), 'gzip-corrupt')
        if a['status'] != b2['status']:
            return ('%s: status %s, without the middleware(s) %s' % (what, b2['status'], a['status']), 'status')
        # a 500 page quotes the traceback (frames, addresses): only its status is compared
        if rq['method'] != 'HEAD' and a['status'] != 500 and (a['sha'] != b2['sha'] or a['len'] != b2['len']):
            return ('%s: decoded body differs from the body served without the middleware(s) (%d vs %d bytes)' % (what, b2['len'], a['len']), 'body')
        if 'gzip' in case['mws']:
            if b2['ce'] == 'gzip':
                if not accepts_gzip(rq['ae']):
                    return ('%s: the client does not accept gzip but received Content-Encoding: gzip' % what, 'gzip-not-accepted')
                if rq['method'] != 'HEAD' and b2['clen'] != str(b2['sent_len']):
                    return ('%s: Content-Length %s, %d bytes sent' % (what, b2['clen'], b2['sent_len']), 'gzip-length')
                if 'accept-encoding' not in b2['vary'].lower():
                    return ('%s: gzip-encoded response without Vary: Accept-Encoding' % what, 'gzip-vary')
            elif not accepts_gzip(rq['ae']) and rq['method'] != 'HEAD' and a['status'] != 500 and a['raw_sha'] != b2['raw_sha']:
                return ('%s: the client does not accept gzip, yet the body bytes changed' % what, 'body')
    return None


def gen_case(rng, tier):
    x = rng.random()
    if x < 0.45:
        mws = [rng.choice(MWS)]
    elif x < 0.6:
        mws = ['gzip']
    else:
        mws = rng.sample(MWS, rng.choice([2, 3, 5]))
    reqs = []
    for _ in range(12 if tier == 'quick' else 40):
        y = rng.random()
        if y < 0.6:
            path = rng.choice(list(SCENARIO))
            method = 'HEAD' if rng.random() < 0.1 else SCENARIO[path][0]
            if path == '/postonly' and rng.random() < 0.5:
                method = 'POST'
        else:
            path = '/size/%d/%s' % (rng.choice([0, 1, 10, 19, 20, 21, 50, 200, 1000, 50000, 1000000 if tier != 'quick' else 100000]),
                                    rng.choice(['text', 'random']))
            method = 'GET'
        reqs.append({'path': path, 'method': method, 'ae': rng.choice(ACCEPT_ENCODINGS), 'ua': rng.choice(AGENTS),
                     'query': rng.choice(['', 'q=1', 'x=y&q=z', '_prof_sort=tottime', '_prof=&_prof_sort=calls', '_prof_sort=']),
                     'cookie': rng.choice(COOKIES), 'range': rng.choice(RANGES)})
        if path == '/rawbody' or (method == 'POST' and rng.random() < 0.5) or rng.random() < 0.2:
            reqs[-1]['body'] = rng.choice(BODIES[1:])
    if 'postdata' in mws:
        # PostDataMiddleware's very purpose is to parse the form out of the body: an endpoint reading the raw body is not its client
        reqs = [r for r in reqs if r['path'] != '/rawbody']
    if 'stats' in mws:
        reqs = reqs + [dict(r) for r in reqs[:6]] + [dict(r) for r in reqs[:6]]      # the same route and status again and again
        return {'mws': mws, 'requests': reqs, 'small_stores': rng.random() < 0.7}
    return {'mws': mws, 'requests': reqs}


def shrink(case):
    def fails(rqs):
        c = dict(case, requests=rqs)
        try:
            return oracle(c, impl(c)) is not None
        except Exception:
            return False
    if not fails(case['requests']):
        return case
    from harness.lab import ddmin_list
    c = dict(case, requests=ddmin_list(case['requests'], fails, max_steps=40))
    for m in list(c['mws']):
        c2 = dict(c, mws=[x for x in c['mws'] if x != m])
        try:
            if c2['mws'] and oracle(c2, impl(c2)) is not None:
                c = c2
        except Exception:
            pass
    return c


def run(rep, b, tier, seed, only_cases=None):
    rep.shrink_module = 'c15'
    rng = random.Random(seed * 141650939 + 15)
    corpus = [c['case'] if 'case' in c else c for c in core.load_corpus('C15')]
    cases = list(only_cases) if only_cases is not None else corpus + [gen_case(rng, tier) for _ in range(150 if tier == 'quick' else 1500)]
    rep.rule = ('mwlab: scenario application (%d fixed routes: text/binary/empty Response, rendered context, redirect, raised / returned / '
                'non-breaking HTTPExceptions incl. long compressible details, uncaught exception, unknown URL, wrong method, '
                'javascript, streamed, already content-encoded) + sized bodies 0 B .. %s compressible and random; each of the %d '
                'built-in middlewares alone, gzip alone, and random stacks of 2-5; %d Accept-Encoding values (absent, q=0, *, identity, '
                'tiny q) x 3 user agents incl. MSIE; every request is served by the application without middlewares and with them: '
                'status, decoded body (SHA-1), Content-Encoding/Length/Vary compared; the gzip decision is compared with '
                'Model/Mw.gzip_mw. non-trivial = requests on which some middleware altered bytes or headers.'
                % (len(SCENARIO), '100 kB' if tier == 'quick' else '1 MB', len(MWS), len(ACCEPT_ENCODINGS)))
    rep.assumptions = ['zlib/gzip is lossless (decompress (compress x) = x): premise of the theorems; every gzip body is actually decompressed here',
                       "werkzeug's Accept-Encoding parsing yields quality > 0 exactly for acceptable codings (cross-checked with an independent RFC 7231 parser)",
                       'client validators (If-None-Match) are not sent: with a matching validator HTTP itself demands a 304']
    obs = core.run_impl_workers('c15', cases)[0]
    lines, index = [], []
    for i, (c, o) in enumerate(zip(cases, obs)):
        if isinstance(o, dict) and '_harness_exception' in o:
            rep.broken('harness exception on implementation side', {'case': c, 'obs': o})
            continue
        if c['mws'] != ['gzip']:
            continue
        for k, (rq, r) in enumerate(zip(c['requests'], o)):
            if rq['method'] == 'HEAD':
                continue
            if rq['path'] in SCENARIO:
                _, kind, texty = SCENARIO[rq['path']]
                if rq['path'] == '/postonly' and rq['method'] == 'POST':
                    kind = 'full'
            else:
                kind, texty = 'full', rq['path'].endswith('text')
            if kind == 'raise':
                continue
            streamed = rq['path'] == '/stream'
            ce = sexp.some('identity') if rq['path'] == '/pre' else 'None'
            msie = bool(rq['ua'] and 'MSIE' in rq['ua'])
            lines.append('gziplab ' + sexp.dumps([kind, r['base']['status'], r['inner_len'], streamed, ce, texty,
                                                  accepts_gzip(rq['ae']), msie, r['inner_complen']]))
            index.append((i, k))
    model_out = None
    if b.driver_ok:
        try:
            model_out = core.run_model(lines)
        except Exception as e:  # noqa
            rep.broken('model gziplab is not executable: %s' % e)
    else:
        rep.broken('model gziplab is not executable (extraction or driver build failed)')
    ndiff = 0
    if model_out is not None:
        for (i, k), line in zip(index, model_out):
            t = sexp.loads(line)
            c, rq, r = cases[i], cases[i]['requests'][k], obs[i][k]['with']
            m_ce = t[0][0].decode() if isinstance(t[0], list) else None
            m_vary = t[1] == b'T'
            m_len = int(t[3])
            got = (r['ce'], 'accept-encoding' in r['vary'].lower(), r['sent_len'])
            want = (m_ce, m_vary, m_len)
            if rq['path'] == '/stream':
                want = (m_ce, m_vary, r['sent_len'])
            if got != want:
                ndiff += 1
                if ndiff <= 5:
                    rep.broken('correspondence gziplab: %s: model (Content-Encoding, Vary has Accept-Encoding, bytes sent) = %s, implementation %s'
                               % (rq, want, got), {'case': dict(c, requests=[rq])})
            else:
                rep.traces += 1
    for c, o in zip(cases, obs):
        if isinstance(o, dict) and '_harness_exception' in o:
            continue
        v = oracle(c, o)
        if v:
            rep.violation(v[0], {'case': c, 'signature': v[1], 'lab': 'mwlab'})
        changed = sum(1 for r in o if r['base']['raw_sha'] != r['with']['raw_sha'] or r['with']['ce'] != r['base']['ce'])
        for m in c['mws']:
            rep.count('mw.' + m)
        rep.count('gzip_encoded', sum(1 for r in o if r['with']['ce'] == 'gzip'))
        rep.evaluations += len(c['requests']) - 1
        rep.case(json.dumps(c, sort_keys=True), nontrivial=changed > 0)
    rep.samples = cases[:1]


def replay(rep, b, path):
    j = json.load(open(path))
    run(rep, b, 'quick', 0, only_cases=[j['case']])
