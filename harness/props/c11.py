from harness.props import worldprops


def run(rep, b, tier, seed):
    worldprops.run('C11', rep, b, tier, seed)


def replay(rep, b, path):
    worldprops.replay('C11', rep, b, path)
