from harness.props import dispatchprops


def run(rep, b, tier, seed):
    dispatchprops.run('C06', rep, b, tier, seed)


def replay(rep, b, path):
    dispatchprops.replay('C06', rep, b, path)
