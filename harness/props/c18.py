"""C18 - metalab: host applications with random resources / routes / middlewares, the meta application
mounted at a prefix (possibly two levels deep); HTML and JSON views for PAIRS of hosts that differ only
in the values of secret-named resources and in cookie signing keys."""
import json
import random

from harness import core, sexp

SECRET_NAMES = ['secret', 'secret_key', 'db_secret', 'api_secret_token', 'mysecretholder', 'top_secret_pin', 'oauth_secrets', 'xsecretx',
                # long names: 'secret' straddling or beyond any display width
                'stripe_webhook_endpoint_signing_secret', 'partner_reporting_gateway_secret_token', 'x' * 40 + '_secret_' + 'y' * 40]
PLAIN_NAMES = ['db', 'config', 'Secret', 'SECRET_UPPER', 'cache', 'secre', 'sec_ret', 'version',
               # names the meta application uses for resources of its own
               'page_title', '_meta_start_time']
PREFIXES = ['/meta', '/_meta/', '/a/b/meta']


def secret_value(kind, token):
    if kind == 'str':
        return token
    if kind == 'bytes':
        return token.encode()
    if kind == 'rawbytes':
        return b'\xff\xfe\x00' + token.encode() + b'\x80'       # binary key material: not valid UTF-8
    if kind == 'num':
        return int(token.encode().hex(), 16)
    if kind == 'nested':
        return {'inner': [1, {'k': token}], 't': (token,)}
    if kind in ('short_int', 'short_none', 'short_true', 'short_str'):
        # trivial secrets (a PIN, a flag, an environment name): text that is bound to occur in other values too
        return {'short_int': 5, 'short_none': None, 'short_true': True, 'short_str': 'dev'}[kind]
    if kind == 'obj':
        class Holder(object):
            def __init__(self, t):
                self.t = t

            def __repr__(self):
                return '<Holder %s>' % self.t
        return Holder(token)
    raise ValueError(kind)


def plain_value(spec):
    k = spec[0]
    if k == 'str':
        return spec[1]
    if k == 'num':
        return spec[1]
    if k == 'long':
        return 'L' * 200
    if k == 'list':
        return [1, 'two', {'three': 3}]
    if k == 'badrepr':
        class Bad(object):
            def __repr__(self):
                raise RuntimeError('no repr for you')
        return Bad()
    if k == 'markup':
        return '<script>alert(1)</script>'
    if k == 'decimal':
        import decimal
        return decimal.Decimal('0.07')
    if k == 'fraction':
        import fractions
        return fractions.Fraction(1, 3)
    if k == 'complex':
        return complex(1, 2)
    raise ValueError(k)


def build_host(case, variant):
    """variant 0/1: the two hosts differ only in secret values and signing keys"""
    from clastic import Application, Response, SubApplication
    from clastic.meta import MetaApplication
    from clastic.middleware import GetParamMiddleware
    from clastic.middleware.cookie import SignedCookieMiddleware
    from clastic.static import StaticApplication
    import os
    resources = {}
    tokens = []
    for name, kind in case['secrets']:
        tok = 'TOKEN%d%s%s' % (variant, name.upper().replace('_', ''), 'Zq9')
        tokens.append(tok)
        resources[name] = secret_value(kind, tok)
    for name, spec in case['plain']:
        resources[name] = plain_value(spec)
    mws = []
    key = ('SIGNINGKEY%dvariant' % variant) * 2
    tokens.append(key)
    if case['cookie_mw']:
        mws.append(SignedCookieMiddleware(secret_key=key.encode()))
    if case['getparam_mw']:
        mws.append(GetParamMiddleware(['q']))
    if case.get('ctx_mw') == 'simple':
        from clastic.middleware import SimpleContextProcessor
        mws.append(SimpleContextProcessor())              # the meta application uses a middleware of this type itself
    elif case.get('ctx_mw') == 'plain':
        from clastic.middleware import ContextProcessor
        mws.append(ContextProcessor())

    def ep_plain():
        return Response('x')

    def ep_args(request, db=None, q=None):
        return Response('y')

    class Callable(object):
        def __call__(self, request):
            return Response('z')
    routes = [('/', ep_plain), ('/args/<x>', lambda x: Response(x)), ('/c', Callable())]
    # endpoints (function, method, callable object) that TAKE a secret-named resource as an argument, required or defaulted
    for k, (name, kind) in enumerate(case['secrets']):
        style = case.get('consumers', [None] * 8)[k % 8]
        if style is None:
            continue
        ns = {'Response': Response}
        if style == 'function':
            exec('def ep(request, %s):\n    return Response("s")\n' % name, ns)
            routes.append(('/consume%d' % k, ns['ep']))
        elif style == 'default':
            exec('def ep(%s=None, q=5):\n    return Response("s")\n' % name, ns)
            routes.append(('/consume%d' % k, ns['ep']))
        elif style == 'method':
            exec('class K(object):\n    def m(self, %s):\n        return Response("s")\n' % name, ns)
            routes.append(('/consume%d' % k, ns['K']().m))
        elif style == 'callable':
            exec('class K(object):\n    def __call__(self, %s, request):\n        return Response("s")\n' % name, ns)
            routes.append(('/consume%d' % k, ns['K']()))
    if 'db' in resources or case['getparam_mw']:
        routes.append(('/withargs', ep_args))
    if case['static']:
        routes.append(('/static', StaticApplication(os.path.dirname(os.path.abspath(__file__)))))
    if case['embedded_app']:
        routes.append(('/sub', Application([('/s', ep_plain)])))
    meta = MetaApplication()
    depth = case['meta_depth']
    if depth == 0:
        routes.append((case['prefix'], meta))
        app = Application(routes, resources=resources, middlewares=mws)
    else:
        # the host application is the one that SERVES the request: resources and middlewares live on the outermost one
        inner = Application([(case['prefix'], meta)] + routes, resources=resources)    # its endpoints need them to be constructible
        mid = Application([('/mid', inner)]) if depth == 2 else inner
        app = Application([('/outer', mid)], resources=resources, middlewares=mws)
    base = ('/outer' if depth >= 1 else '') + ('/mid' if depth == 2 else '') + case['prefix'].rstrip('/')
    return app, base, tokens, resources


def impl(case):
    from harness import wsgi
    out = []
    for variant in (0, 1):
        app, base, tokens, resources = build_host(case, variant)
        rec = {'tokens': tokens}
        for view, path in (('html', base + '/'), ('json', base + '/json/')):
            r = wsgi.call(app, wsgi.environ(path))
            body = r.body.decode('utf8', 'replace')
            rec[view] = {'status': r.code, 'exc': type(r.exc).__name__ if r.exc else None,
                         'leaks': [t for t in tokens if t in body], 'redacted': body.count('[REDACTED]'), 'len': len(body)}
            if view == 'json' and r.code == 200:
                try:
                    j = json.loads(body)
                    rec['app_group'] = j.get('app')
                except Exception as e:
                    rec['json_error'] = '%s: %s' % (type(e).__name__, e)
            if view == 'html':
                import html as _html

                def shown(v):
                    r0 = repr(v)
                    return _html.escape(r0 if len(r0) <= 70 else r0[:67] + '...', True)
                rec['visible'] = dict((name, shown(resources[name]) in body) for name, spec in case['plain'] if spec[0] in ('str', 'num'))
        reprs = []
        for name in resources:
            try:
                reprs.append([name, repr(resources[name])])
            except Exception:
                reprs = None
                break
        rec['reprs'] = reprs
        out.append(rec)
    return out


def oracle(case, obs):
    for variant, rec in enumerate(obs):
        for view in ('html', 'json'):
            o = rec[view]
            what = '%s view of host variant %d (meta at depth %d, prefix %s)' % (view, variant, case['meta_depth'], case['prefix'])
            if o['exc'] or o['status'] != 200:
                return ('%s: status %s %s' % (what, o['status'], o['exc'] or ''), 'not-200')
            if o['leaks']:
                return ('%s: the page reveals %s' % (what, o['leaks']), 'leak')
            if case['secrets'] and not any(sp[0] == 'badrepr' for _, sp in case['plain']) and o['redacted'] < len(case['secrets']):
                return ('%s: %d secret-named resources, %d redaction markers' % (what, len(case['secrets']), o['redacted']), 'marker')
        if 'json_error' in rec:
            return ('JSON view does not parse: %s' % rec['json_error'], 'json')
        if not any(sp[0] == 'badrepr' for _, sp in case['plain']):
            missing = [n for n, ok in rec.get('visible', {}).items() if not ok]
            if missing:
                return ('non-secret resources %s are not shown on the HTML page' % missing, 'visible')
    a, b2 = obs[0].get('app_group'), obs[1].get('app_group')
    if a != b2:
        return ('two hosts that differ only in secret values / signing keys produce different application sections: %s vs %s'
                % (json.dumps(a)[:300], json.dumps(b2)[:300]), 'interference')
    return None


def gen_case(rng, tier):
    secrets = [[n, rng.choice(['str', 'bytes', 'rawbytes', 'num', 'nested', 'obj', 'short_int', 'short_none', 'short_true', 'short_str'])]
               for n in rng.sample(SECRET_NAMES, rng.choice([0, 1, 2, 3]))]
    plain = []
    for n in rng.sample(PLAIN_NAMES, rng.choice([0, 1, 2, 4])):
        plain.append([n, rng.choice([['str', 'value-of-' + n], ['num', 12345], ['num', 5050], ['str', 'devices: None, True'], ['long'], ['list'], ['markup'], ['decimal'], ['fraction'],
                                     ['complex'],
                                     ['badrepr'] if rng.random() < 0.15 else ['str', 'v']])])
    return {'ctx_mw': rng.choice([None, None, 'simple', 'plain']), 'consumers': [rng.choice([None, 'function', 'default', 'method', 'callable']) for _ in range(8)],
            'secrets': secrets, 'plain': plain, 'cookie_mw': rng.random() < 0.6, 'getparam_mw': rng.random() < 0.3,
            'static': rng.random() < 0.3, 'embedded_app': rng.random() < 0.3, 'meta_depth': rng.choice([0, 0, 1, 2]),
            'prefix': rng.choice(PREFIXES)}


def shrink(case):
    return case


def run(rep, b, tier, seed, only_cases=None):
    rep.shrink_module = None
    rng = random.Random(seed * 236887699 + 18)
    corpus = [c['case'] if 'case' in c else c for c in core.load_corpus('C18')]
    cases = list(only_cases) if only_cases is not None else corpus + [gen_case(rng, tier) for _ in range(120 if tier == 'quick' else 1200)]
    rep.rule = ('metalab: host applications with 0-3 secret-named resources (%d names: prefix/infix/suffix; values: strings, bytes incl. binary key material, '
                'numbers, nested containers, objects whose repr contains the secret) and 0-4 other resources (incl. names that differ in '
                'case, long values, markup, objects whose repr raises), routes of several endpoint kinds (incl. functions, methods and callable objects that take a secret-named resource as a required or defaulted argument), a static route, an embedded '
                'application, SignedCookie (known key) and GetParam middlewares; meta mounted at %d prefixes, directly or embedded one '
                'or two levels deep; for every configuration TWO hosts that differ only in secret values and signing keys are built and '
                'their HTML and JSON views fetched. non-trivial = configurations with a secret-named resource.'
                % (len(SECRET_NAMES), len(PREFIXES)))
    rep.assumptions = ["Python's repr of a value (premise: a section variable in the model)",
                       'O11: the substring test is case-sensitive and per top-level resource name',
                       'process/host/rusage sections vary between runs and are not compared']
    obs = core.run_impl_workers('c18', cases)[0]
    lines, index = [], []
    for i, (c, o) in enumerate(zip(cases, obs)):
        if isinstance(o, dict) and '_harness_exception' in o:
            rep.broken('harness exception on implementation side', {'case': c, 'obs': o})
            continue
        for variant, rec in enumerate(o):
            if rec.get('reprs') is not None and rec.get('app_group'):
                lines.append('metalab ' + sexp.dumps([[n.encode('utf8'), r.encode('utf8')] for n, r in rec['reprs']]))
                index.append((i, variant))
    model_out = None
    if b.driver_ok:
        try:
            model_out = core.run_model(lines)
        except Exception as e:  # noqa
            rep.broken('model metalab is not executable: %s' % e)
    else:
        rep.broken('model metalab is not executable (extraction or driver build failed)')
    ndiff = 0
    if model_out is not None:
        for (i, variant), line in zip(index, model_out):
            want = sorted([kv[0].decode('utf8', 'replace'), kv[1].decode('utf8', 'replace')] for kv in sexp.loads(line))
            got_all = obs[i][variant]['app_group'].get('resources')
            got = sorted([r['key'], r['value']] for r in got_all) if isinstance(got_all, list) else got_all
            if want != got:
                ndiff += 1
                if ndiff <= 5:
                    rep.broken('correspondence metalab: resources shown: model %s, implementation %s' % (want, got), {'case': cases[i]})
            else:
                rep.traces += 1
    for c, o in zip(cases, obs):
        if isinstance(o, dict) and '_harness_exception' in o:
            continue
        v = oracle(c, o)
        if v:
            rep.violation(v[0], {'case': c, 'signature': v[1], 'lab': 'metalab'})
        rep.count('depth.%d' % c['meta_depth'])
        rep.count('secrets', len(c['secrets']))
        rep.evaluations += 3
        rep.case(json.dumps(c, sort_keys=True), nontrivial=bool(c['secrets']))
    rep.samples = cases[:1]


def replay(rep, b, path):
    j = json.load(open(path))
    run(rep, b, 'quick', 0, only_cases=[j['case']])
