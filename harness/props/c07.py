"""C07 - redirectlab: slash redirects on real applications (flat, route-level mode, embedded with and
without slash inheritance), every Location followed by a second raw request."""
import json
import random
from urllib.parse import urlsplit, unquote_to_bytes

from harness import core, sexp

SEGS = ['a', 'b', 'x', '1', '?', '#', '%', '%41', 'b c', ';p=1', 'a&b', 'k=v', 'é', '+', 'q?r#s', '%2F', '~_.-', '"<>', '中', "'"]
QUERIES = ['', 'q=1', 'a=1&b=2', 'x=%41%2f', 'p=%zz&a=+', 'é=ü', 'raw=\xff\xfe', 'k;v=1', 'a b', 'u=http://x/?y#z'.replace('#', '%23'),
           "s=:/?[]@!$&'()*+,;=", 'w="<>\\^`{|}',
           # question marks that belong to the query (a search phrase, a JSONP placeholder)
           'q=what?', 'callback=?', '?', 'a=1&b=??']
METHODS = ['GET', 'HEAD', 'POST', 'PUT', 'DELETE', 'OPTIONS', 'PATCH', 'get', 'FOO']
ROUTES = [  # (pattern, number of leading literal segments, binding kind)
    ('/s/t/', 'static'), ('/s/t', 'static'), ('/i/<x>/', 'single'), ('/i/<x>', 'single'),
    ('/m/<p+>/', 'multi'), ('/m/<p*>', 'multi'), ('/o/<y?>/', 'single'), ('/', 'static'), ('/n/<k:int>/', 'single')]
MODES = ['redirect', 'strict', 'rewrite']
URL_LEGAL = set("abcdefghijklmnopqrstuvwxyzABCDEFGHIJKLMNOPQRSTUVWXYZ0123456789-._~:/?#[]@!$&'()*+,;=%")


def norm(path, branch=True):
    segs = [x for x in path.split('/') if x]
    if not segs:
        return '/'
    return '/' + '/'.join(segs) + ('/' if branch else '')


def effective_mode(case):
    """O4: the application's mode wins unless the route was added with inherit_slashes=False;
    through an embedding without inheritance the inner bound route's own mode is kept"""
    e = case['embed']
    inner_eff = case['inner_mode'] if e['inner_inherit'] else case['route_mode']
    if e['depth'] == 0:
        return inner_eff
    return case['outer_mode'] if e['outer_inherit'] else inner_eff


def build(case):
    from clastic import Application, Route, Response, SubApplication
    got = {}

    def mk(names):
        ns = {}
        exec('def ep(request%s):\n    _got["kw"] = dict(%s)\n    _got["path"] = request.path\n    return _R("ok")\n'
             % (''.join(', ' + n for n in names), ', '.join('%s=%s' % (n, n) for n in names)), {'_got': got, '_R': Response}, ns)
        return ns['ep']
    pattern = case['pattern']
    import re
    names = re.findall(r'<([a-z]+)', pattern)
    kw = {}
    if case['methods'] is not None:
        kw['methods'] = case['methods']
    rt = Route(pattern, mk(names), slash_mode=case['route_mode'], **kw)
    e = case['embed']
    inner = Application([], slash_mode=case['inner_mode'])
    inner.add(rt, inherit_slashes=e['inner_inherit'])
    if case.get('shadow'):
        # a second route BEHIND the first one, for the same paths (the leaf spelling of the pattern, always rewritten),
        # admitting only methods the first one does not: whatever it answers is never a redirect
        sh = Route(pattern.rstrip('/') or '/', lambda **kw: Response('shadow'), methods=case['shadow'], slash_mode='rewrite')
        inner.add(sh, inherit_slashes=False)
    app = inner
    if e['depth'] >= 1:
        if len(e['prefix']) % 2:
            # the other documented spelling: the option is given to add() together with a plain (prefix, application) pair
            app = Application([], slash_mode=case['outer_mode'])
            app.add((e['prefix'], inner), inherit_slashes=e['outer_inherit'])
        else:
            app = Application([SubApplication(e['prefix'], inner, inherit_slashes=e['outer_inherit'])], slash_mode=case['outer_mode'])
    return app, got


def canon_val(v):
    if isinstance(v, list):
        return [canon_val(x) for x in v]
    return [type(v).__name__, v if not isinstance(v, float) else repr(v)]


def impl(case):
    from harness import wsgi
    app, got = build(case)
    br = app.routes[0]
    out = []
    for method, path, query in case['requests']:
        pi = path.encode('utf8').decode('latin-1')
        qs = query.encode('utf8').decode('latin-1') if all(ord(c) < 256 for c in query) and '\xff' in query else \
            query.encode('utf8').decode('latin-1')
        if '\xff' in query:
            qs = query                       # raw (invalid UTF-8) bytes given directly as latin-1 code points
        got.clear()
        sn = case.get('script_name', '')       # the application mounted below a script root (SCRIPT_NAME): part of the URL, not of the path
        r = wsgi.call(app, wsgi.environ(pi, method=method, query=qs, script_name=sn))
        rec = {'status': r.code, 'exc': type(r.exc).__name__ if r.exc else None, 'location': r.header('Location'),
               'matched': br.match_path('/' + path.lstrip('/')) is not None,
               'matched_canonical': br.match_path(norm('/' + path.lstrip('/'), br.pattern.endswith('/'))) is not None,
               'kw': sorted((k, canon_val(v)) for k, v in got.get('kw', {}).items()) if 'kw' in got else None}
        if rec['location'] and r.code in (301, 302, 303, 307, 308):
            u = urlsplit(rec['location'])
            p2 = unquote_to_bytes(u.path).decode('latin-1')
            rec['under_script_root'] = p2.startswith(sn + '/') if sn else True
            if sn and p2.startswith(sn + '/'):
                p2 = p2[len(sn):]
            got.clear()
            r2 = wsgi.call(app, wsgi.environ(p2, method=method, query=u.query, script_name=sn))
            rec['second'] = {'status': r2.code, 'exc': type(r2.exc).__name__ if r2.exc else None,
                             'location': r2.header('Location'), 'path_info': p2.encode('latin-1').decode('utf8', 'replace'),
                             'seen_path': got.get('path'),
                             'kw': sorted((k, canon_val(v)) for k, v in got.get('kw', {}).items()) if 'kw' in got else None}
            # the same method on the normalised path directly
            got.clear()
            want_path = norm('/' + path.lstrip('/'))
            r3 = wsgi.call(app, wsgi.environ(want_path.encode('utf8').decode('latin-1'), method=method, query=qs, script_name=sn))
            rec['direct'] = {'status': r3.code, 'kw': sorted((k, canon_val(v)) for k, v in got.get('kw', {}).items()) if 'kw' in got else None}
        out.append(rec)
    return {'pattern_full': br.pattern, 'mode': br.slash_mode, 'requests': out}


def admitted(case, method):
    if not case['methods']:
        return True
    ms = set(m.upper() for m in case['methods'])
    if 'GET' in ms:
        ms.add('HEAD')
    return method.upper() in ms


def oracle(case, obs):
    eff = effective_mode(case)
    if obs['mode'] != eff:
        return ('the bound route has slash mode %s; application/route modes and inheritance flags demand %s' % (obs['mode'], eff),
                'effective-mode')
    branch = obs['pattern_full'].endswith('/')
    for (method, path, query), o in zip(case['requests'], obs['requests']):
        what = '%s %r ?%r on %s (%s)' % (method, path, query, obs['pattern_full'], eff)
        if o['exc']:
            return ('%s: %s escaped to the WSGI server' % (what, o['exc']), 'escape')
        seen = '/' + path.lstrip('/')
        canonical = norm(seen) == seen
        if eff != 'strict' and case['kind'] != 'multi' and o.get('matched_canonical') and not o['matched'] and \
                norm(seen, branch).rstrip('/') == norm(seen).rstrip('/'):
            # (a slash run inside the span of a multi binding is the known finding F3 of C05 and is left out here)
            return ('%s: the route serves the canonical path %r but does not recognise this spelling of it' % (what, norm(seen, branch)),
                    'spelling-not-recognised')
        redirected = o['status'] in (301, 302, 303, 307, 308) and o['location'] is not None
        should = eff == 'redirect' and branch and o['matched'] and admitted(case, method) and not canonical
        if redirected and not should:
            return ('%s: redirected to %s although %s' % (what, o['location'], 'the mode is %s' % eff if eff != 'redirect' else
                    'the route is a leaf' if not branch else 'the route does not match' if not o['matched'] else
                    'the method is not admitted' if not admitted(case, method) else 'the path is canonical'), 'spurious-redirect')
        if should and not redirected:
            return ('%s: expected a slash redirect, got status %s' % (what, o['status']), 'missing-redirect')
        if not redirected:
            if eff == 'strict' and branch and o['matched'] and not canonical and admitted(case, method) and o['status'] != 404:
                return ('%s: strict mode answered %s for a non-canonical path' % (what, o['status']), 'strict')
            if eff == 'rewrite' and o['matched'] and admitted(case, method) and o['status'] != 200:
                return ('%s: rewrite mode answered %s' % (what, o['status']), 'rewrite')
            continue
        u = urlsplit(o['location'])
        want_path = norm(seen)
        sn = case.get('script_name', '')
        if sn:
            if not o.get('under_script_root'):
                return ('%s: mounted at %s, redirected to %s which leaves the mount point' % (what, sn, o['location']), 'script-root')
            u = u._replace(path=u.path[len(sn):])
        if unquote_to_bytes(u.path) != want_path.encode('utf8'):
            return ('%s: Location path %r decodes to %r, canonical path is %r' % (what, u.path, unquote_to_bytes(u.path), want_path), 'location-path')
        qbytes = query.encode('latin-1') if '\xff' in query else query.encode('utf8')
        if set(query) <= URL_LEGAL:
            if u.query != query:
                return ('%s: query %r became %r' % (what, query, u.query), 'query-changed')
        elif unquote_to_bytes(u.query) != unquote_to_bytes(qbytes):
            return ('%s: query %r became %r (different bytes)' % (what, query, u.query), 'query-changed')
        s = o['second']
        if s['exc'] or s['status'] in (301, 302, 303, 307, 308):
            return ('%s: following the redirect to %s gives %s %s: not one hop' % (what, o['location'], s['status'], s['location'] or s['exc']),
                    'second-redirect')
        if s['seen_path'] is not None and s['seen_path'] != want_path:
            return ('%s: the redirect target is served as path %r, not %r' % (what, s['seen_path'], want_path), 'target-path')
        if s['status'] != o['direct']['status'] or s['kw'] != o['direct']['kw']:
            return ('%s: following the redirect gives %s %s, the canonical path directly gives %s %s' % (
                what, s['status'], s['kw'], o['direct']['status'], o['direct']['kw']), 'same-resource')
    return None


def gen_case(rng, tier):
    pattern, kind = rng.choice(ROUTES)
    depth = rng.choice([0, 0, 1])
    case = {'pattern': pattern, 'kind': kind, 'methods': rng.choice([None, None, ['GET'], ['POST'], ['GET', 'PUT']]),
            'route_mode': rng.choice(MODES), 'inner_mode': rng.choice(MODES), 'outer_mode': rng.choice(MODES),
            'embed': {'depth': depth, 'prefix': rng.choice(['/pre', '/pre/', '/']), 'inner_inherit': rng.random() < 0.6,
                      'outer_inherit': rng.random() < 0.6}}
    if rng.random() < 0.5:
        case['inner_mode'] = 'redirect' if depth == 0 else case['inner_mode']
    prefix = case['embed']['prefix'].rstrip('/') if depth else ''
    reqs = []
    lits = [x for x in (prefix + pattern).split('/') if x and not x.startswith('<')]
    for _ in range(8 if tier == 'quick' else 20):
        segs = list(lits)
        if kind == 'single':
            segs += [rng.choice(SEGS + ['5', '-3'])] if rng.random() < 0.9 else []
        elif kind == 'multi':
            segs += [rng.choice(SEGS) for _ in range(rng.choice([0, 1, 2, 3]))]
        if rng.random() < 0.08:
            segs.append('extra')
        path = ''.join('/' * rng.choice([1, 1, 1, 2, 3]) + s for s in segs) + '/' * rng.choice([0, 0, 1, 1, 2])
        if not path:
            path = '/'
        reqs.append([rng.choice(METHODS), path, rng.choice(QUERIES)])
    case['requests'] = reqs
    case['script_name'] = rng.choice(['', '', '/api', '/mnt/v1'])
    if case['methods'] and pattern != '/' and rng.random() < 0.6:
        # two routes for one path with different method sets, a method neither admits early in the history
        case['shadow'] = ['POST', 'DELETE'] if 'POST' not in case['methods'] else ['GET', 'DELETE']
        first = list(lits)
        if kind in ('single', 'multi'):
            first.append('5')
        p0 = '/' + '/'.join(first)
        case['requests'] = [['PATCH', p0, ''], ['PATCH', p0 + '/', 'q=1']] + reqs
    return case


def shrink(case):
    def fails(c):
        try:
            return oracle(c, impl(c)) is not None
        except Exception:
            return False
    if not fails(case):
        return case
    from harness.lab import ddmin_list
    return dict(case, requests=ddmin_list(case['requests'], lambda rq: fails(dict(case, requests=rq))))


def run(rep, b, tier, seed, only_cases=None):
    rep.shrink_module = 'c07'
    rng = random.Random(seed * 49979687 + 7)
    corpus = [c['case'] if 'case' in c else c for c in core.load_corpus('C07')]
    cases = list(only_cases) if only_cases is not None else corpus + [gen_case(rng, tier) for _ in range(600 if tier == 'quick' else 6000)]
    rep.rule = ('redirectlab: %d route shapes (branch/leaf x static/single/multi/optional/int bindings, root) x method sets x '
                'route-level, application-level and embedding-application slash modes x an optional second route behind it for the same paths with the complementary method set (histories start with a method neither admits) x inherit_slashes on/off at both levels x script roots (SCRIPT_NAME empty, /api, /mnt/v1) x '
                'prefixes; request paths assembled from %d segments incl. URL-significant characters with 1-3 slashes between and '
                '0-2 at the end; %d query strings incl. malformed escapes, raw non-UTF-8 bytes and every delimiter; %d methods; every '
                'Location is followed by a second raw request and compared with a direct request to the canonical path; the Location '
                'string itself is compared with Model/Redirect.location. non-trivial = cases with at least one redirect.'
                % (len(ROUTES), len(SEGS), len(QUERIES), len(METHODS)))
    rep.assumptions = ["werkzeug redirect()/Response header handling leaves a Location of unreserved characters, '/', '%XX' and "
                       "URL-legal query characters unchanged (a trailing bare '?' is dropped)",
                       'the server decodes %XX in the path; request.path is the UTF-8 decoding of PATH_INFO (paths are valid UTF-8)']
    obs = core.run_impl_workers('c07', cases)[0]
    lines, idx = [], []
    for i, (c, o) in enumerate(zip(cases, obs)):
        if isinstance(o, dict) and '_harness_exception' in o:
            rep.broken('harness exception on implementation side', {'case': c, 'obs': o})
            continue
        for k, ((method, path, query), r) in enumerate(zip(c['requests'], o['requests'])):
            qb = query.encode('latin-1') if '\xff' in query else query.encode('utf8')
            lines.append('redirectlab ' + sexp.dumps(['http://localhost' + c.get('script_name', ''), ('/' + path.lstrip('/')).encode('utf8'), qb]))
            idx.append((i, k))
    model_out = None
    if b.driver_ok:
        try:
            model_out = core.run_model(lines)
        except Exception as e:  # noqa
            rep.broken('model redirectlab is not executable: %s' % e)
    else:
        rep.broken('model redirectlab is not executable (extraction or driver build failed)')
    ndiff = 0
    if model_out is not None:
        for (i, k), line in zip(idx, model_out):
            c, o = cases[i], obs[i]
            r = o['requests'][k]
            m = sexp.loads(line)
            canon_m = (m[0] == b'T')
            seen = '/' + c['requests'][k][1].lstrip('/')
            if canon_m != (norm(seen) == seen) or m[1] != norm(seen).encode('utf8'):
                ndiff += 1
                if ndiff <= 5:
                    rep.broken('correspondence redirectlab: normalize_path(%r): model %r' % (seen, m[1]), {'case': c})
                continue
            if r['location'] and r['status'] in (301, 302, 303, 307, 308):
                want = m[2].decode('latin-1')
                if want.endswith('?') and not c['requests'][k][2]:
                    want = want[:-1]          # no query at all: the bare '?' the model appends is dropped by werkzeug
                if r['location'] != want:
                    ndiff += 1
                    if ndiff <= 5:
                        rep.broken('correspondence redirectlab: Location: model %r, implementation %r' % (want, r['location']),
                                   {'case': dict(c, requests=[c['requests'][k]])})
                    continue
            rep.traces += 1
    for c, o in zip(cases, obs):
        if isinstance(o, dict) and '_harness_exception' in o:
            continue
        v = oracle(c, o)
        if v:
            rep.violation(v[0], {'case': c, 'impl_observation': o, 'signature': v[1], 'lab': 'redirectlab'})
        nred = sum(1 for r in o['requests'] if r.get('second'))
        rep.count('mode.' + o['mode'])
        rep.count('embed.depth%d' % c['embed']['depth'])
        rep.count('redirects', nred)
        rep.evaluations += len(c['requests']) - 1
        rep.case(json.dumps(c, sort_keys=True), nontrivial=nred > 0)
    rep.samples = cases[:2]


def replay(rep, b, path):
    j = json.load(open(path))
    run(rep, b, 'quick', 0, only_cases=[j['case']])
