"""C19 - reservoir op sequences and StatsMiddleware request histories."""
import json
import random

from harness import core, lab, sexp

# ------------------------------------------------------------------ reservoir lab

def rnd_of(r, a, b):
    return a if b + 1 - a <= 0 else a + r % (b + 1 - a)


def gen_reservoir_case(rng, tier):
    cap = rng.choice([1, 1, 2, 2, 3, 4, 5, 8, 13])
    n = rng.choice([3, 8, 20, 40, 80] if tier == 'quick' else [8, 40, 120, 300])
    ops, v = [], 100
    p_resize = rng.choice([0.0, 0.05, 0.15, 0.3])
    for _ in range(n):
        if rng.random() < p_resize:
            ops.append(['resize', rng.choice([0, 1, 2, 3, 5, 8, 10, 20, cap, cap + 1, max(cap - 1, 0)])])
        else:
            v += 1
            # raw random: bias towards small indices (replacement) and the boundary idx == cap
            r = rng.choice([rng.randrange(0, 4), rng.randrange(0, 50), rng.randrange(0, 10 ** 6), cap, cap - 1])
            ops.append(['add', v, max(r, 0)])
    case = {'lab': 'reservoir', 'cap': cap, 'ops': ops}
    if rng.random() < 0.3:
        # the first k values are handed to the constructor (data=...) instead of being added one by one
        k = 0
        while k < len(ops) and ops[k][0] == 'add' and k < 12:
            k += 1
        if k:
            case['preload'] = rng.randint(1, k)
            case['preload_kind'] = rng.choice(['iterator', 'list', 'tuple'])
    return case


def impl_reservoir(case):
    import clastic.middleware.stats as st
    obs = []
    cur = {'r': 0}
    orig = st.fast_randint
    st.fast_randint = lambda a, b: rnd_of(cur['r'], a, b)
    npre = case.get('preload', 0)
    try:
        if npre:
            # Reservoir(cap, data=<first npre values>): the store after the constructor is the store after those adds.
            # An iterator feeds the values (and the raw random number that goes with each) and photographs the container
            # between two values; a list / tuple is handed over as it is and the result must be the same store
            pre = case['ops'][:npre]
            box = []

            def feed():
                for i, op in enumerate(pre):
                    if i:
                        obs.append(['ok', case['cap'], i, list(box)])
                    cur['r'] = op[2]
                    yield op[1]
            try:
                res = st.Reservoir(cap=case['cap'], data=feed(), container=box)
                obs.append(['ok', res._cap, res.total_count, list(res)])
                if case.get('preload_kind') in ('list', 'tuple') and npre <= case['cap']:
                    vals = [op[1] for op in pre]
                    res2 = st.Reservoir(cap=case['cap'], data=vals if case['preload_kind'] == 'list' else tuple(vals))
                    if [res2._cap, res2.total_count, list(res2)] != obs[-1][1:]:
                        obs[-1] = ['raise', 'PreloadedStoreDiffers:%r' % ([res2._cap, res2.total_count, list(res2)],)]
                        return obs
                    res = res2
            except Exception as e:
                del obs[:]
                obs.append(['raise', type(e).__name__])
                return obs
        else:
            res = st.Reservoir(cap=case['cap'])
        for op in case['ops'][npre:]:
            try:
                if op[0] == 'add':
                    cur['r'] = op[2]
                    res.add(op[1])
                else:
                    res.resize(op[1])
                obs.append(['ok', res._cap, res.total_count, list(res)])
            except Exception as e:
                obs.append(['raise', type(e).__name__])
                break
    finally:
        st.fast_randint = orig
    return obs


def canon_reservoir(case, obs):
    out = list(obs)
    # after a raise the model keeps reporting the raise for the remaining ops
    if out and out[-1][0] == 'raise':
        out += [out[-1]] * (len(case['ops']) - len(out))
    return out


def oracle_reservoir(case, obs):
    adds, added = 0, set()
    asked = case['cap']                   # the capacity the caller ASKED for (constructor, then the last resize)
    for op, o in zip(case['ops'], obs):
        if op[0] == 'add':
            adds += 1
            added.add(op[1])
        else:
            asked = op[1]
        if o[0] == 'raise':
            return ('sample store raised %s' % o[1], 'reservoir-raises')
        _, cap, total, data = o
        if len(data) > cap or len(data) > asked:
            return ('sample store holds %d values with capacity %d (its own _cap says %s)' % (len(data), asked, cap), 'reservoir-over-capacity')
        if total != adds:
            return ('sample store reports %d values added, %d were' % (total, adds), 'reservoir-total')
        if not set(data) <= added:
            return ('sample store contains a value never added', 'reservoir-membership')
    return None


# ------------------------------------------------------------------ stats lab
# request kind -> (method, path, [(pattern, outcome)] hits in order)
NULL = '/<_ignored*>'
KINDS = {
    'ok':       ('GET', '/ok', [('/ok', ['ret', 200])]),
    'ctx':      ('GET', '/ctx', [('/ctx', ['ret', 200])]),
    'redir':    ('GET', '/redir', [('/redir', ['ret', 302])]),
    'raise404': ('GET', '/raise404', [('/raise404', ['http', 404])]),
    'raise503': ('GET', '/raise503', [('/raise503', ['http', 503])]),
    'ret403':   ('GET', '/ret403', [('/ret403', ['ret', 403])]),
    'boom':     ('GET', '/boom', [('/boom', ['exc', 'ValueError'])]),
    'keyerr':   ('GET', '/keyerr', [('/keyerr', ['exc', 'KeyError'])]),
    'nb':       ('GET', '/nb', [('/nb', ['http', 404]), (NULL, ['ret', 404])]),
    'item':     ('GET', '/item/7', [('/item/<n:int>', ['ret', 200])]),
    # ONE route with two kinds of outcome: a status code and an uncaught exception
    'flaky_ok':   ('GET', '/flaky/1', [('/flaky/<n:int>', ['ret', 200])]),
    'flaky_boom': ('GET', '/flaky/0', [('/flaky/<n:int>', ['exc', 'ValueError'])]),
    # the wall clock steps backwards while the request is served (NTP adjustment): still one request
    'backclock': ('GET', '/backclock', [('/backclock', ['ret', 200])]),
    'unknown':  ('GET', '/nope', [(NULL, ['ret', 404])]),
    # the server (or an outer application) calls the application while it is itself handling an exception - a reroute,
    # a fallback handler, an error page that embeds a sub-request: the outcome of THIS request is what is counted
    'ok_in_except':   ('GET', '/ok', [('/ok', ['ret', 200])], '', 'KeyError'),
    'item_in_except': ('GET', '/item/7', [('/item/<n:int>', ['ret', 200])], '', 'LookupError'),
    'boom_in_except': ('GET', '/boom', [('/boom', ['exc', 'ValueError'])], '', 'KeyError'),
    # query strings as clients send them: raw bytes that are not UTF-8 (latin-1 form fields, binary tokens)
    'ok_rawq':      ('GET', '/ok', [('/ok', ['ret', 200])], 'q=caf\xe9'),
    'redir_rawq':   ('GET', '/redir', [('/redir', ['ret', 302])], 'next=\xff\xfe'),
    'ret403_rawq':  ('GET', '/ret403', [('/ret403', ['ret', 403])], '\xe9'),
    'unknown_rawq': ('GET', '/nope', [(NULL, ['ret', 404])], 'x=\xff\xfe&y=%ff'),
    'wrongmeth': ('DELETE', '/postonly', [(NULL, ['ret', 405])]),
    'post':     ('POST', '/postonly', [('/postonly', ['ret', 200])]),
    'head':     ('HEAD', '/ok', [('/ok', ['ret', 200])]),
    'read':     ('GET', '/_stats/', [('/_stats/', ['ret', 200])]),
    'reset':    ('POST', '/_stats/reset', [('/_stats/reset', ['ret', 200])]),
    # not a request: the operator resizes every per-route sample store to a small capacity, so that stores
    # hold fewer samples than they have counted (as after 16384 hits with the default capacity)
    'shrink':   (None, None, []),
}


def gen_stats_case(rng, tier):
    n = rng.choice([4, 10, 25] if tier == 'quick' else [10, 40, 100])
    kinds = [k for k in KINDS if k not in ('read', 'reset', 'shrink')]
    ops = []
    for _ in range(n):
        x = rng.random()
        if x < 0.07:
            ops.append('shrink')
        elif x < 0.17:
            ops.append('read')
        elif x < 0.2:
            ops.append('reset')
        else:
            ops.append(rng.choice(kinds))
    ops.append('read')
    return {'lab': 'stats', 'ops': ops}


def stats_model_ops(case):
    """the model's operation list and, per harness op, the index of the model state to observe"""
    mops, marks = [], []
    for k in case['ops']:
        if k == 'shrink':
            marks.append(None)            # resizing the sample stores is not an operation of the counting model: counts are unaffected
            continue
        if k == 'reset':
            mops.append(['reset'])
        for pat, oc in KINDS[k][2]:
            mops.append(['req', pat, oc])
        marks.append(len(mops) - 1)
    return mops, marks


_CLOCK = {'offset': 0.0}


class _FakeTime(object):
    """stands in for the time module inside clastic.middleware.stats: the real clock plus an offset the lab can move"""
    @staticmethod
    def time():
        import time as _t
        return _t.time() + _CLOCK['offset']


def build_stats_app():
    from clastic import Application, Response, redirect, POST
    from clastic.errors import NotFound, Forbidden, ServiceUnavailable
    from clastic.render import render_basic
    from clastic.middleware.stats import StatsMiddleware, create_stats_app

    def ok():
        return Response('ok')

    def ctx():
        return {'a': 1}

    def redir():
        return redirect('/ok')

    def raise404():
        raise NotFound()

    def raise503():
        raise ServiceUnavailable()

    def ret403():
        return Forbidden()

    def boom():
        raise ValueError('boom')

    def keyerr():
        raise KeyError('k')

    def nb():
        raise NotFound(is_breaking=False)

    def item(n):
        return Response(str(n))

    def flaky(n):
        if n == 0:
            raise ValueError('flaky')
        return Response('fine')

    def backclock():
        _CLOCK['offset'] -= 100.0
        return Response('clock set back')

    mw = StatsMiddleware()
    routes = [('/ok', ok), ('/ctx', ctx, render_basic), ('/redir', redir), ('/raise404', raise404),
              ('/raise503', raise503), ('/ret403', ret403), ('/boom', boom), ('/keyerr', keyerr),
              ('/nb', nb), ('/item/<n:int>', item), ('/flaky/<n:int>', flaky), ('/backclock', backclock), POST('/postonly', ok),
              ('/_stats', create_stats_app())]
    return Application(routes, middlewares=[mw]), mw


def snapshot(mw):
    out = {}
    for rt, hits in mw.route_hits.items():
        d = {}
        for key, res in hits.items():
            d[str(key)] = d.get(str(key), 0) + res.total_count        # (keys are reprs; whatever they are, report them as text)
        if d:
            out.setdefault(rt.pattern, {}).update(d)
    return sorted((p, sorted(d.items())) for p, d in out.items())


def impl_stats(case):
    from harness import wsgi
    import clastic.middleware.stats as _st
    _CLOCK['offset'] = 0.0
    _st.time = _FakeTime
    app, mw = build_stats_app()
    obs = []
    for k in case['ops']:
        method, path = KINDS[k][:2]
        if k == 'shrink':
            for hits in mw.route_hits.values():
                for res in hits.values():
                    res.resize(2)
            obs.append({'status': 200, 'exc': None, 'after': snapshot(mw)})
            continue
        before = snapshot(mw)
        q = 'format=json' if k in ('read', 'reset') else (KINDS[k][3] if len(KINDS[k]) > 3 else '')
        if len(KINDS[k]) > 4:
            try:
                raise {'KeyError': KeyError, 'LookupError': LookupError}[KINDS[k][4]]('the caller is busy with this one')
            except LookupError:
                r = wsgi.get(app, path, method=method, query=q)
        else:
            r = wsgi.get(app, path, method=method, query=q)
        rec = {'status': r.code, 'exc': type(r.exc).__name__ if r.exc else None, 'after': snapshot(mw)}
        if k in ('read', 'reset'):
            try:
                j = json.loads(r.body.decode('utf8'))
                rec['report'] = sorted((p, sorted((s, v['count']) for s, v in d.items()))
                                       for p, d in j['route_stats'].items())
                rec['reset_flag'] = j.get('reset', False)
            except Exception as e:
                rec['report_error'] = '%s: %s' % (type(e).__name__, e)
            rec['before'] = before
        obs.append(rec)
    return obs


def canon_stats(case, obs):
    """what the model prints: the report after every model op; we compare at harness-op marks"""
    return None  # comparison is done in run() because of the marks


def oracle_stats(case, obs):
    """model counter kept by the harness, restating the property directly"""
    counter = {}
    for k, o in zip(case['ops'], obs):
        if o.get('exc'):
            return ('request %s let %s escape' % (k, o['exc']), 'stats-escape')
        hits = KINDS[k][2]
        if hits:
            last = hits[-1][1]
            want_status = 500 if last[0] == 'exc' else last[1]
            if o['status'] != want_status:
                return ('request %s answered %s with the stats middleware installed; the route answers %s' % (k, o['status'], want_status),
                        'stats-status')
        if k in ('read', 'reset'):
            if 'report' not in o:
                return ('stats report unreadable: %s (status %s)' % (o.get('report_error'), o['status']), 'stats-report')
            want = sorted((p, sorted(d.items())) for p, d in counter.items() if d)
            got = [(p, [tuple(x) for x in d]) for p, d in o['report']]
            if got != want:
                return ('stats report %r differs from the requests actually served %r' % (got, want), 'stats-count')
        if k == 'reset':
            counter = {}
        for pat, oc in KINDS[k][2]:
            key = repr(oc[1])
            counter.setdefault(pat, {})
            counter[pat][key] = counter[pat].get(key, 0) + 1
        # every route's counts sum to the requests that reached it
        after = {p: dict((a, b) for a, b in d) for p, d in o['after']}
        for pat, d in counter.items():
            if sum(after.get(pat, {}).values()) != sum(d.values()):
                return ('route %s: counts sum to %d after %d requests' % (
                    pat, sum(after.get(pat, {}).values()), sum(d.values())), 'stats-sum')
    return None


def impl(case):
    return impl_reservoir(case) if case['lab'] == 'reservoir' else impl_stats(case)


def shrink(case):
    orc = oracle_reservoir if case['lab'] == 'reservoir' else oracle_stats

    def fails(ops):
        c = dict(case, ops=ops)
        try:
            return orc(c, impl(c)) is not None
        except Exception:
            return False
    return dict(case, ops=lab.ddmin_list(case['ops'], fails))


# ------------------------------------------------------------------ driver
def run(rep, b, tier, seed, only_cases=None):
    rep.shrink_module = 'c19'
    rng = random.Random(seed * 7919 + 19)
    rep.rule = ('reservoir: random add/resize sequences (cap 1..13, lengths up to %s, raw random ints biased to the '
                'replacement boundary) replayed on Reservoir with fast_randint patched to the same values, state '
                'compared after every op; stats: random request histories over a 12-route scenario application with '
                'reads, resets and operator resizes of every per-route sample store to capacity 2 (stores then hold fewer samples than they counted), route_hits compared after every request and the JSON report compared with a '
                'harness-kept counter. non-trivial = distinct cases that reach the replacement branch / contain a '
                'growing resize after overflow / contain a reset or read' % ('80' if tier == 'quick' else '300'))
    rep.assumptions = ['fast_randint returns an integer in [start, stop] (its documented contract)',
                       'cap=False (infinite capacity) is outside the model; capacities are integers >= 0',
                       'two routes with an identical pattern share a report entry (O9): scenario patterns are distinct']
    corpus = [c for c in core.load_corpus('C19')]
    n_res = 300 if tier == 'quick' else 4000
    n_st = 60 if tier == 'quick' else 600
    res_cases = [c for c in corpus if c.get('lab') == 'reservoir'] + [gen_reservoir_case(rng, tier) for _ in range(n_res)]
    directed = [{'lab': 'stats', 'ops': ops} for ops in (
        # one route with a status-code outcome AND an uncaught exception since the last reset, then the report and the reset
        ['flaky_ok', 'flaky_boom', 'read', 'reset', 'flaky_boom', 'flaky_ok', 'read'],
        ['flaky_boom', 'flaky_ok', 'flaky_ok', 'reset', 'read'],
        ['backclock', 'read', 'ok', 'backclock', 'backclock', 'reset', 'backclock', 'read'],
        ['ok', 'shrink', 'ok', 'ok', 'flaky_ok', 'shrink', 'flaky_boom', 'read'])]
    st_cases = [c for c in corpus if c.get('lab') == 'stats'] + directed + [gen_stats_case(rng, tier) for _ in range(n_st)]
    if only_cases is not None:
        res_cases = [c for c in only_cases if c.get('lab') == 'reservoir']
        st_cases = [c for c in only_cases if c.get('lab') == 'stats']
    cases = res_cases + st_cases
    obs = core.run_impl_workers('c19', cases)[0]
    res_obs, st_obs = obs[:len(res_cases)], obs[len(res_cases):]

    # --- reservoir
    lab.correspond(rep, b, 'reservoir', res_cases, lambda c: [c['cap'], c['ops']], res_obs,
                   canon_reservoir, oracle_reservoir)
    for c, o in zip(res_cases, res_obs):
        if isinstance(o, dict):
            continue
        overflow = any(x[0] == 'ok' and x[2] > x[1] for x in o)
        grow = False
        for i, op in enumerate(c['ops']):
            if op[0] == 'resize' and i < len(o) and i > 0 and o[i - 1][0] == 'ok' and o[i - 1][2] > o[i - 1][1] < op[1]:
                grow = True
        rep.count('reservoir.overflow' if overflow else 'reservoir.below_cap')
        if grow:
            rep.count('reservoir.growing_resize_after_overflow')
        rep.case(json.dumps(c, sort_keys=True), nontrivial=overflow or grow)
    # --- stats
    if b.driver_ok and st_cases:
        lines, marks_all = [], []
        for c in st_cases:
            mops, marks = stats_model_ops(c)
            lines.append('stats ' + sexp.dumps(mops))
            marks_all.append(marks)
        try:
            outs = core.run_model(lines)
        except Exception as e:
            outs = None
            rep.broken('model stats is not executable: %s' % e)
        if outs is not None:
            ndiff = 0
            for c, o, out, marks in zip(st_cases, st_obs, outs, marks_all):
                if isinstance(o, dict):
                    rep.broken('harness exception on implementation side (stats)', {'case': c, 'obs': o})
                    continue
                states = sexp.loads(out)
                ok = True
                for k, rec, m in zip(c['ops'], o, marks):
                    if m is None:
                        continue
                    st = states[m]
                    want = ['ok', [[p, [[a, b2] for a, b2 in d]] for p, d in rec['after']]]
                    got = canon_model_state(st)
                    if sexp.dumps(sort_state(want)) != sexp.dumps(sort_state(got)):
                        ok = False
                        ndiff += 1
                        if ndiff <= 5:
                            rep.broken('correspondence stats: model and implementation differ',
                                       {'case': c, 'op': k, 'model': sexp.dumps(got), 'impl': sexp.dumps(want)})
                        break
                if ok:
                    rep.traces += 1
    elif st_cases:
        rep.broken('model stats is not executable (extraction or driver build failed)')
    for c, o in zip(st_cases, st_obs):
        if isinstance(o, dict):
            continue
        v = oracle_stats(c, o)
        if v:
            rep.violation(v[0], {'lab': 'stats', 'case': c, 'impl_observation': o, 'signature': v[1]})
        for k in c['ops']:
            rep.count('stats.op.' + k)
        rep.case(json.dumps(c, sort_keys=True), nontrivial=('reset' in c['ops'] or c['ops'].count('read') > 1))
    rep.samples = [res_cases[0] if res_cases else None, st_cases[0] if st_cases else None]


def canon_model_state(st):
    # st = (ok ((pattern ((key count) ...)) ...)) with bytes atoms
    if st[0] != b'ok':
        return ['raise', st[1].decode()]
    return ['ok', [[p.decode(), [[k.decode(), int(v)] for k, v in d]] for p, d in st[1]]]


def sort_state(s):
    if s[0] != 'ok':
        return s
    return ['ok', sorted([p, sorted(d)] for p, d in s[1])]


def replay(rep, b, path):
    j = json.load(open(path))
    run(rep, b, 'quick', 0, only_cases=[j['case']])
