"""C20 - flawlab: flaw.create_app(text, files) for real tracebacks and hostile texts; every path and
method must give a 200 page containing the escaped text and file names."""
import html
import json
import random
from html.parser import HTMLParser

from harness import core, sexp

EXC_SRC = ["raise ValueError('bad <value> & \"quotes\"')", "raise KeyError('k')", "1/0", "int('x')", "[][1]", "{}['<b>']", "None.attr",
           "raise RuntimeError()", "raise Exception('multi\\nline message')", "import no_such_module_xyz", "raise OSError(2, 'No such file', '/tmp/<x>')",
           "raise UnicodeError('é中')", "assert False, 'assertion <failed>'", "raise NotImplementedError", "undefined_name_here"]
HOSTILE = ['', ' ', '\n', 'not a traceback', '<script>XSS1</script>', '{tb_str} {#mon_files}{.}{/mon_files} {>x/} {~lb}{!c!}', '</pre><h1>XSS4</h1>',
           '" onload="XSS7', "' x='y", '&amp; &lt; &', 'é 中 ✓', 'a\tb\x07c\x1b[31mred', 'Traceback (most recent call last):',
           'Traceback (most recent call last):\n  File "x.py", line 1, in f', 'ValueError: <b>bold</b>', 'A:B:C', ':', 'x' * 5000, '\r\nCRLF: yes\r\n',
           'Type With Space: msg', 'http://x/?a=1&b=2', '%s %(x)s {0} {{}}']
TOKENS = ['<script>XSS1', '<h1>XSS4', '" onload="XSS7', "' x='y'"]
PATHS = ['/', '/anything', '/a/b/c/', '//x', '/<b>', '/favicon.ico', '/clastic_assetsx', '/a b',
         # below the prefix of the page's own static assets, but not an asset: still the failsafe page
         '/clastic_assets/../flaw.py', '/clastic_assets/..', '/clastic_assets//etc/hosts', '/clastic_assets/no-such.css',
         '/clastic_assets/', '/clastic_assets', '/clastic_assets/css/../../../setup.py']
METHODS = ['GET', 'POST', 'HEAD', 'PUT', 'DELETE']


def real_traceback(src, depth):
    import traceback
    code = 'def f0():\n    %s\n' % src
    for d in range(1, depth):
        code += 'def f%d():\n    f%d()\n' % (d, d - 1)
    code += 'f%d()\n' % (depth - 1)
    try:
        exec(compile(code, 'startup_module.py', 'exec'), {})
    except BaseException:
        return traceback.format_exc()
    return 'no exception'


def syntax_error_report():
    import traceback
    try:
        compile('def f(:\n  pass', 'broken <file>.py', 'exec')
    except SyntaxError:
        return traceback.format_exc()


def site_dirs():
    import ast
    import os
    import werkzeug
    import clastic
    return [os.path.dirname(ast.__file__), os.path.dirname(os.__file__), os.path.dirname(werkzeug.__file__), os.path.dirname(clastic.__file__)]


def materialise(case):
    """-> (text, files) as passed to create_app"""
    t = case['text']
    if t[0] == 'tb':
        text = real_traceback(EXC_SRC[t[1]], t[2])
        if t[3] == 'truncate':
            text = text[:max(1, len(text) * t[4] // 10)]
        elif t[3] == 'concat':
            text = text + '\n' + real_traceback(EXC_SRC[(t[1] + 3) % len(EXC_SRC)], 1)
    elif t[0] == 'syntax':
        text = syntax_error_report()
    elif t[0] == 'none':
        text = None
    elif t[0] == 'bytes':
        text = t[1].encode('utf8')
    else:
        text = t[1]
    f = case['files']
    if f is None:
        files = None
    else:
        dirs = site_dirs()
        files = [x.replace('@STDLIB@', dirs[0]).replace('@WERKZEUG@', dirs[2]).replace('@CLASTIC@', dirs[3]) for x in f]
    return text, files


class Skel(HTMLParser):
    def __init__(self):
        HTMLParser.__init__(self, convert_charrefs=True)
        self.tags = []

    def handle_starttag(self, tag, attrs):
        self.tags.append('<' + tag + ' ' + ','.join(sorted(k for k, v in attrs)) + '>')

    def handle_endtag(self, tag):
        self.tags.append('</' + tag + '>')

    def handle_comment(self, data):
        self.tags.append('<!--')


def impl(case):
    from harness import wsgi
    from clastic import flaw
    text, files = materialise(case)
    given_files = list(files) if files is not None else None
    try:
        app = flaw.create_app(text, files)
    except Exception as e:
        return {'construct': '%s: %s' % (type(e).__name__, e), 'text': text if isinstance(text, str) else repr(text), 'files': given_files}
    out = {'construct': 'ok', 'text': text if isinstance(text, str) else None, 'text_repr': repr(text)[:200], 'files': given_files,
           'site_dirs': site_dirs(), 'requests': []}
    for method, path in case['requests']:
        r = wsgi.call(app, wsgi.environ(path, method=method))
        body = r.body.decode('utf8', 'replace')
        p = Skel()
        try:
            p.feed(body)
            p.close()
            tags = p.tags
        except Exception as e:
            tags = ['TOKENIZER-ERROR %s' % e]
        out['requests'].append({'status': r.code, 'exc': type(r.exc).__name__ if r.exc else None, 'body': body, 'tags': tags,
                                'ctype': r.header('Content-Type')})
    return out


def oracle(case, obs):
    if obs['construct'] != 'ok':
        return ('create_app raised %s for text %s' % (obs['construct'], obs.get('text', '')[:80] if obs.get('text') else case['text']), 'construct')
    text, files = obs['text'], obs['files']
    for (method, path), o in zip(case['requests'], obs['requests']):
        what = '%s %s (text %s, %s files)' % (method, path, case['text'][0], 'no' if files is None else len(files))
        if o['exc']:
            return ('%s: %s escaped' % (what, o['exc']), 'escape')
        if o['status'] != 200:
            return ('%s: status %s' % (what, o['status']), 'status')
        if method == 'HEAD':
            continue
        body = o['body']
        if text is not None and html.escape(text, True) not in body:
            return ('%s: the page does not contain the (escaped) error text' % what, 'text-missing')
        for f in files or []:
            if html.escape(f, True) not in body:
                return ('%s: the page does not contain the monitored file name %r' % (what, f), 'file-missing')
        for t in TOKENS:
            if t in body:
                return ('%s: the page contains unescaped %r' % (what, t), 'unescaped')
        want_tags = ['<html >', '<head >', '<title >', '</title>', '<link href,rel,type>', '<link href,rel,type>', '</head>', '<body >',
                     '<h1 class>', '</h1>', '<p >', '</p>', '<h2 class>', '</h2>', '<h2 >', '</h2>', '<pre >', '</pre>', '<br >', '<hr >', '<p >', '<ul >']
        if o['tags'][:len(want_tags)] != want_tags:
            return ('%s: the tag sequence of the page starts %s, the template has %s' % (what, o['tags'][:len(want_tags)], want_tags), 'skeleton')
        if text is not None:
            lines = text.splitlines()
            if lines:
                t, sep, m = lines[-1].partition(':')
                if sep and t and len(t.split()) == 1 and case['text'][0] in ('tb', 'syntax') and case['text'][0] != 'trunc':
                    if html.escape(t, True) not in body or html.escape(m, True) not in body:
                        return ('%s: the page does not name exception type %r and message %r' % (what, t, m), 'exception-missing')
    return None


def gen_case(rng, tier):
    x = rng.random()
    if x < 0.4:
        text = ['tb', rng.randrange(len(EXC_SRC)), rng.choice([1, 2, 3, 5]), rng.choice(['whole', 'whole', 'truncate', 'concat']), rng.randrange(1, 10)]
    elif x < 0.45:
        text = ['syntax']
    elif x < 0.5:
        text = ['none']
    elif x < 0.56:
        text = ['bytes', rng.choice(HOSTILE)]
    elif x < 0.85:
        text = ['hostile', rng.choice(HOSTILE)]
    else:
        alphabet = 'ab <>&"\'{}#/\\\n\t\x00\x07\x1bé中|:.~!'
        text = ['random', ''.join(rng.choice(alphabet) for _ in range(rng.randrange(0, 200)))]
    fx = rng.random()
    pool = ['/app/main.py', '/app/<b>.py', '/app/a&b".py', "/app/it's.py", '@STDLIB@/os.py', '@WERKZEUG@/serving.py', '@CLASTIC@/application.py',
            '/x/{tb_str}.py', '/very/' + 'long/' * 30 + 'file.py', 'relative.py', '/app/é.py',
            # several spellings of one location: each is a name that was given and must be shown
            'pkg/views.py', './pkg/views.py', 'pkg/../pkg/views.py', 'pkg//views.py', '/app/sub/../main.py', '/app//main.py', '/app/main.py/']
    if fx < 0.15:
        files = None
    elif fx < 0.25:
        files = []
    else:
        files = [rng.choice(pool) for _ in range(rng.choice([1, 2, 5, 30]))]
    reqs = [[rng.choice(METHODS), rng.choice(PATHS)] for _ in range(4 if tier == 'quick' else 10)] + [['GET', '/']]
    return {'text': text, 'files': files, 'requests': reqs}


def shrink(case):
    return case


def run(rep, b, tier, seed, only_cases=None):
    rep.shrink_module = None
    rng = random.Random(seed * 198491317 + 20)
    corpus = [c['case'] if 'case' in c else c for c in core.load_corpus('C20')]
    cases = list(only_cases) if only_cases is not None else corpus + [gen_case(rng, tier) for _ in range(300 if tier == 'quick' else 3000)]
    rep.rule = ('flawlab: error texts = real tracebacks (a catalogue of %d failing statements raised at stack depths 1-5; whole, '
                'truncated at 10%%..90%%, concatenated), a SyntaxError report, None, bytes, %d hostile texts (empty, markup, quotes, '
                'dust syntax, control characters, CRLF, 5000 characters) and random strings over an alphabet with markup / template / '
                'control characters; monitored file lists: None, empty, 1-30 names incl. markup, quotes, template syntax, very long, and '
                'files below the stdlib / werkzeug / clastic directories; %d paths x %d methods. The page is compared byte-for-byte '
                'with the extracted model (template nodes regenerated from flaw.py) and checked by the oracle. non-trivial = cases with '
                'a text that is not a plain traceback.' % (len(EXC_SRC), len(HOSTILE), len(PATHS), len(METHODS)))
    rep.assumptions = ['ashes renders a reference by HTML-escaping its value (html.escape, quote=True) unless the s filter is present, and never re-parses substituted values',
                       'O12: _ParsedTB.from_string refers to the undefined name unicode, so parsing always falls back; both branches are in the model',
                       'line separators other than LF / CR are outside the model\'s last_line (oracle-only)']
    obs = core.run_impl_workers('c20', cases)[0]
    lines, index = [], []
    for i, (c, o) in enumerate(zip(cases, obs)):
        if isinstance(o, dict) and '_harness_exception' in o:
            rep.broken('harness exception on implementation side', {'case': c, 'obs': o})
            continue
        if o.get('construct') != 'ok' or o['text'] is None:
            continue
        if any(ch in o['text'] for ch in '\x0b\x0c\x1c\x1d\x1e\x85  '):
            continue
        files = o['files'] or []
        allf = sorted(files, key=len)
        mon = [f for f in allf if not any(f.startswith(d) for d in o['site_dirs'])]
        lines.append('flawlab ' + sexp.dumps([o['text'].encode('utf8'), [f.encode('utf8') for f in mon], [f.encode('utf8') for f in allf]]))
        index.append(i)
    model_out = None
    if b.driver_ok:
        try:
            model_out = core.run_model(lines)
        except Exception as e:  # noqa
            rep.broken('model flawlab is not executable: %s' % e)
    else:
        rep.broken('model flawlab is not executable (extraction or driver build failed)')
    ndiff = 0
    if model_out is not None:
        for i, line in zip(index, model_out):
            t = sexp.loads(line)
            page = t[0].decode('utf8', 'replace')
            c, o = cases[i], obs[i]
            bad = None
            for (method, path), r in zip(c['requests'], o['requests']):
                if method != 'HEAD' and r['status'] == 200 and r['body'] != page:
                    k = next((n for n in range(min(len(page), len(r['body']))) if page[n] != r['body'][n]), min(len(page), len(r['body'])))
                    bad = 'pages differ at offset %d: model %r, implementation %r' % (k, page[max(0, k - 40):k + 60], r['body'][max(0, k - 40):k + 60])
                    break
            if bad:
                ndiff += 1
                if ndiff <= 5:
                    rep.broken('correspondence flawlab: ' + bad, {'case': c})
            else:
                rep.traces += 1
    for c, o in zip(cases, obs):
        if isinstance(o, dict) and '_harness_exception' in o:
            continue
        v = oracle(c, o)
        if v:
            rep.violation(v[0], {'case': c, 'signature': v[1], 'lab': 'flawlab'})
        rep.count('text.' + c['text'][0])
        rep.count('files.' + ('none' if c['files'] is None else 'empty' if not c['files'] else 'some'))
        rep.evaluations += len(c['requests']) - 1
        rep.case(json.dumps(c, sort_keys=True), nontrivial=(c['text'][0] != 'tb' or c['text'][3] != 'whole'))
    rep.samples = cases[:2]


def replay(rep, b, path):
    j = json.load(open(path))
    run(rep, b, 'quick', 0, only_cases=[j['case']])
