"""C10 / C11 - worldlab: histories of {construct application (with inline embedded applications),
add route / sub-application at an index, embed a live application in another, failing entries};
after every operation every live application is snapshotted (bound-route fields) and probed with
requests; compared with Model/World.v and with model-independent oracles:
  C11: contiguous splice, failed operation = identity, frame (other applications untouched),
       Route objects untouched;
  C10: nested application == independently flattened declaration on all probe requests."""
import copy
import json
import random

from harness import core, sexp

MODES = ['redirect', 'strict', 'rewrite']
_TRACE = []


# ------------------------------------------------------------------ implementation side
def pyres(pairs):
    """the resource value 0 of a case stands for Python's None (a resource may well BE None: an optional service that is
    switched off); every other value is the number itself"""
    return dict((n, None if v == 0 else v) for n, v in pairs)


def unpy(v):
    return 0 if v is None else v


def embed(app, prefix, inner, rebind, inherit, index):
    """the two documented spellings of one embedding, chosen by the prefix text: the options on the SubApplication, or
    the options given to add() together with a plain (prefix, application) pair"""
    from clastic import SubApplication
    if sum(map(ord, prefix)) % 2:
        app.add((prefix, inner), index, rebind_render=bool(rebind), inherit_slashes=bool(inherit))
    else:
        app.add(SubApplication(prefix, inner, rebind_render=bool(rebind), inherit_slashes=bool(inherit)), index)


class Lab(object):
    def __init__(self):
        self.routes = {}       # key -> Route object
        self.decls = {}        # key -> rdecl
        self.mw_classes = {}
        self.mws = {}          # inst -> object
        self.handlers = {}
        self.factories = {}
        self.apps = {}         # id -> Application (live, registered)
        self.envs = {}

    def mw(self, spec):
        from clastic.middleware import Middleware
        t = spec['type']
        if t not in self.mw_classes:
            ns = {}
            src = ('class MW%d(Middleware):\n    unique = %r\n    reorderable = %r\n    provides = %r\n'
                   '    def __init__(self, inst):\n        self.inst = inst\n'
                   '    def request(self, next):\n        _T.append(self.inst)\n'
                   '        return next(**dict((p, "P%%d:%%s" %% (self.inst, p)) for p in self.provides))\n'
                   % (t, bool(spec['unique']), bool(spec['reorderable']), tuple(spec['provides'])))
            exec(src, {'Middleware': Middleware, '_T': _TRACE}, ns)
            self.mw_classes[t] = ns['MW%d' % t]
        if spec['inst'] not in self.mws:
            self.mws[spec['inst']] = self.mw_classes[t](spec['inst'])
        return self.mws[spec['inst']]

    def handler(self, hid):
        from clastic.errors import ErrorHandler
        if hid not in self.handlers:
            class H(ErrorHandler):
                def render_error(self, request, _error):
                    ret = super(H, self).render_error(request=request, _error=_error)
                    ret.headers['X-Handler'] = str(self.hid)
                    return ret
            h = H()
            h.hid = hid
            self.handlers[hid] = h
        return self.handlers[hid]

    def factory(self, fid):
        from clastic import Response
        if fid is None:
            return None
        if fid not in self.factories:
            def factory(arg, fid=fid):
                def render(context, ra=None, rb=None, rc=None, rd=None):
                    seen = ','.join('%s=%s' % kv for kv in (('ra', ra), ('rb', rb), ('rc', rc), ('rd', rd)) if kv[1] is not None)
                    return Response('F%d:%s|%s|%s' % (fid, arg, context['body'], seen))
                render.fid, render.arg = fid, arg
                return render
            factory.fid = fid
            self.factories[fid] = factory
        return self.factories[fid]

    def render_obj(self, rn):
        from clastic import Response
        if rn is None:
            return None
        if rn[0] == 'arg':
            return rn[1]
        rid = rn[1]
        key = ('render', rid)
        if key not in self.factories:
            def render(context, ra=None, rb=None, rc=None, rd=None, rid=rid):
                seen = ','.join('%s=%s' % kv for kv in (('ra', ra), ('rb', rb), ('rc', rc), ('rd', rd)) if kv[1] is not None)
                return Response('C%d|%s|%s' % (rid, context['body'], seen))
            render.rid = rid
            self.factories[key] = render
        return self.factories[key]

    @staticmethod
    def decorated(d):
        # every fourth declaration: an endpoint wrapped by clastic_decorator (it carries its declared signature with it)
        # that takes the resource 'ra' IF there is one (default otherwise)
        return d['key'] % 4 == 0 and 'ra' not in d['needs'] and 'err' not in d['pattern']

    def make_ep(self, d):
        from clastic import Response
        from clastic.errors import NotFound
        k = d['key']
        needs = list(d['needs'])
        plain = d['render'] is None
        is_err = 'err' in d['pattern']
        dec = self.decorated(d)
        ns = {}
        body = "'K%d;' + ';'.join('%%s=%%s' %% kv for kv in [%s])" % (k, ', '.join("('%s', %s)" % (n, n) for n in needs + (['ra'] if dec else [])))
        src = 'def ep(%s):\n    body = %s\n' % (', '.join(needs + (["ra='dflt'"] if dec else [])), body)
        if is_err:
            src += '    raise _NF(body)\n'
        elif plain:
            src += '    return _R(body)\n'
        else:
            src += '    return {"body": body}\n'
        exec(src, {'_R': Response, '_NF': NotFound}, ns)
        if dec:
            from clastic.decorators import clastic_decorator

            def passthrough(fn):
                def wrapper(*a, **kw):
                    return fn(*a, **kw)
                return wrapper
            return clastic_decorator(passthrough)(ns['ep'])
        return ns['ep']

    def route(self, d):
        from clastic import Route
        k = d['key']
        if k in self.routes:
            return self.routes[k]
        ep = self.make_ep(d)
        kw = {}
        if d['methods'] is not None:
            kw['methods'] = d['methods']
        mws = [self.mw(m) for m in d['mws']]
        if k % 3 == 1:
            mws = iter(mws)                   # any iterable will do for the argument: a filter(), a generator expression
        elif k % 3 == 2:
            mws = tuple(mws)
        rt = Route(d['pattern'], ep, self.render_obj(d['render']), middlewares=mws,
                   resources=pyres(d['resources']), slash_mode=d['mode'], **kw)
        self.routes[k] = rt
        self.decls[k] = d
        return rt

    def make_app(self, env, entries):
        from clastic import Application
        app = Application([], resources=pyres(env['resources']), middlewares=[self.mw(m) for m in env['mws']],
                          render_factory=self.factory(env['factory']), error_handler=self.handler(env['handler']),
                          slash_mode=env['mode'])
        app._wid = env['id']
        for e in entries:
            self.add_entry(app, e, None)
        return app

    def add_entry(self, app, e, index):
        from clastic import SubApplication
        if e[0] == 'route':
            if e[2]:
                app.add(self.route(e[1]), index)          # the default (inherit) is not spelled out
            else:
                app.add(self.route(e[1]), index, inherit_slashes=False)
        else:
            _, prefix, env, entries, rebind, inherit = e
            inner = self.make_app(env, entries)
            embed(app, prefix, inner, rebind, inherit, index)

    # ---- observation
    def render_repr(self, r):
        from clastic.route import _noop_render
        if r is _noop_render:
            return 'noop'
        if hasattr(r, 'rid'):
            return ['callable', r.rid]
        if hasattr(r, 'fid'):
            return ['factory', r.fid, r.arg]
        return ['other', repr(r)[:40]]

    def snapshot(self, app):
        out = []
        for br in app.routes:
            key = next((k for k, r in self.routes.items() if br.unbound_route is r), -1)
            h = getattr(br.render_error, '__self__', None)
            out.append([key, br.pattern, br.slash_mode, [m.inst for m in br.middlewares],
                        sorted([n, unpy(v)] for n, v in br.resources.items()), self.render_repr(br.render),
                        getattr(h, 'hid', -1), [getattr(a, '_wid', -1) for a in br.bound_apps]])
        return out

    def route_state(self):
        out = {}
        for k, r in sorted(self.routes.items()):
            out[str(k)] = [r.pattern, sorted(r.methods) if r.methods else None, [m.inst for m in r.middlewares],
                           sorted((n, unpy(v)) for n, v in r.resources.items()), r.slash_mode, self.render_repr(r.render) if callable(r.render) else repr(r.render)]
        return out

    def probe(self, app):
        return probe_app(app, [br.pattern for br in app.routes])


def probe_paths(patterns):
    import re
    paths = []
    for p in patterns:
        s = re.sub(r'<[^>]*>', 'v', p)
        segs = [t for t in s.split('/') if t]
        inner_doubled = '/' + '//'.join(segs) + ('/' if s.endswith('/') and segs else '')      # every slash INSIDE the path doubled
        for x in (s, s.rstrip('/') + '//' if s != '/' else '/', s.rstrip('/') or '/', inner_doubled):
            if x not in paths:
                paths.append(x)
        if '.' in s and s.replace('.', 'x') not in paths:
            paths.append(s.replace('.', 'x'))         # a mount point is text like any other part of a pattern
    paths.append('/definitely/not/there')
    return paths


def probe_app(app, patterns):
    from harness import wsgi
    out = []
    for path in probe_paths(patterns):
        for method in ('GET', 'POST', 'PUT'):          # PUT: a method that method-restricted routes of the catalogue do not admit
            del _TRACE[:]
            r = wsgi.get(app, path, method=method)
            out.append([method, path, r.code, r.body.decode('utf8', 'replace')[:200] if r.code == 200 else '',
                        r.header('X-Handler'), r.header('Location'), list(_TRACE), type(r.exc).__name__ if r.exc else None])
    return out


def impl(case):
    lab = Lab()
    steps = []
    for op in case['ops']:
        before_routes = lab.route_state()
        rec = {}
        try:
            if op[0] != 'new' and (op[1] not in lab.apps or (op[0] == 'embed' and op[3] not in lab.apps)):
                raise LookupError('no such application')
            if op[0] == 'new':
                app = lab.make_app(op[1], op[2])
                lab.apps[op[1]['id']] = app
                lab.envs[op[1]['id']] = op[1]
            elif op[0] == 'add':
                lab.add_entry(lab.apps[op[1]], op[2], op[3])
            elif op[0] == 'embed':
                from clastic import SubApplication
                _, target, prefix, src, rebind, inherit, index = op
                embed(lab.apps[target], prefix, lab.apps[src], rebind, inherit, index)
            rec['obs'] = 'ok'
        except LookupError:
            rec['obs'] = 'nosuchapp'
        except Exception as e:
            rec['obs'] = ['fail', type(e).__name__]
            rec['detail'] = str(e)[:200]
        rec['world'] = dict((str(i), lab.snapshot(a)) for i, a in sorted(lab.apps.items()))
        # what an application was constructed with never changes, whatever is added to it or wherever it is embedded
        rec['appstate'] = dict((str(i), [[getattr(m, 'inst', repr(m)) for m in a.middlewares], sorted((n, unpy(v)) for n, v in a.resources.items()),
                                         a.slash_mode]) for i, a in sorted(lab.apps.items()))
        rec['probes'] = dict((str(i), lab.probe(a)) for i, a in sorted(lab.apps.items()))
        after_routes = lab.route_state()
        rec['routes_changed'] = [k for k in before_routes if before_routes[k] != after_routes.get(k)]
        # C10: a flat declaration of the same application, built independently
        if rec['obs'] == 'ok' and case.get('flat_check', True):
            tid = op[1]['id'] if op[0] == 'new' else op[1]
            try:
                flat = build_flat(lab, case, tid, [st['obs'] == 'ok' for st in steps] + [True])
                if flat is not None:
                    rec['flat'] = probe_app(flat, [br.pattern for br in lab.apps[tid].routes])
                    rec['flat_patterns'] = [br.pattern for br in flat.routes]
            except Exception as e:
                rec['flat_error'] = '%s: %s' % (type(e).__name__, e)
        steps.append(rec)
    return steps


# ------------------------------------------------------------------ C10: independent flattening
def flatten_entries(env_chain, entries):
    """[(rdecl, route_inherit, levels)] where levels = [(env, prefix, rebind, inherit)] innermost first
    (the application the route is declared in comes first, with prefix '' and flags None)"""
    out = []
    for e in entries:
        if e[0] == 'route':
            out.append((e[1], bool(e[2]), list(env_chain)))
        else:
            _, prefix, env, sub, rebind, inherit = e
            for d, rinh, levels in flatten_entries([(env, None, None, None)], sub):
                out.append((d, rinh, levels + [(env_chain[0][0], prefix.rstrip('/'), bool(rebind), bool(inherit))] + env_chain[1:]))
    return out


def declared_tree(case, tid, oks):
    """the declaration tree of live application tid after the successful ones of ops[0..len(oks)-1]:
    (env, entries) with embeds inlined"""
    trees = {}
    for op, ok in zip(case['ops'], oks):
        if not ok:
            continue
        if op[0] == 'new':
            trees[op[1]['id']] = (op[1], list(op[2]))
        elif op[0] == 'add' and op[1] in trees and op[1] == op[1]:
            env, es = trees[op[1]]
            trees[op[1]] = (env, insert_entries(es, op[3], [op[2]], count_leaves))
        elif op[0] == 'embed' and op[1] in trees and op[3] in trees:
            env, es = trees[op[1]]
            senv, ses = trees[op[3]]
            trees[op[1]] = (env, insert_entries(es, op[6], [['sub', op[2], senv, copy.deepcopy(ses), op[4], op[5]]], count_leaves))
    return trees.get(tid)


def count_leaves(e):
    if e[0] == 'route':
        return 1
    return sum(count_leaves(x) for x in e[3])


def insert_entries(entries, index, new, leaf_count):
    """insert entries at a *route* index: only exact when the index falls on an entry boundary; used only
    for the flat oracle, which skips the case otherwise"""
    total = sum(leaf_count(e) for e in entries)
    if index is None:
        return entries + new
    i = max(total + index, 0) if index < 0 else min(index, total)
    pos, out, done = 0, [], False
    for e in entries:
        if pos == i and not done:
            out += new
            done = True
        elif pos < i < pos + leaf_count(e) and not done:
            raise ValueError('index inside an embedded application')
        out.append(e)
        pos += leaf_count(e)
    if not done:
        out += new
    return out


def build_flat(lab, case, tid, oks):
    from clastic import Application, Route
    try:
        tree = declared_tree(case, tid, oks)
    except ValueError:
        return None
    if tree is None:
        return None
    env, entries = tree
    flat = flatten_entries([(env, None, None, None)], entries)
    app = Application([], resources=pyres(env['resources']), middlewares=[lab.mw(m) for m in env['mws']],
                      render_factory=None, error_handler=lab.handler(env['handler']), slash_mode=env['mode'])
    for d, rinh, levels in flat:
        # levels: innermost application first ... outermost (= env) last
        prefix = ''.join(l[1] for l in reversed(levels) if l[1])
        # middlewares: outer then inner lists, then the route's; a unique type is kept once, at its outermost position
        seq = []
        for l in reversed(levels[:-1]):
            seq += l[0]['mws']
        seq += d['mws']
        seen = set(m['type'] for m in env['mws'] if m['unique'])
        mws = []
        for m in seq:
            if m['unique'] and m['type'] in seen:
                continue
            if m['unique']:
                seen.add(m['type'])
            mws.append(m)
        # resources of all levels
        res = {}
        for l in reversed(levels[:-1]):
            res.update(pyres(l[0]['resources']))
        res.update(pyres(d['resources']))
        # the serving (outermost) application's value wins for a name it also defines: the flat declaration simply does
        # not define such a name further in (declaring it again at route level would re-create the shadowing question)
        res = dict((k, v) for k, v in res.items() if k not in dict(env['resources']))
        # slash mode through the inheritance flags
        eff = levels[0][0]['mode'] if rinh else d['mode']
        for l in levels[1:]:
            if l[3]:
                eff = l[0]['mode']
        # renderer: own unless re-binding was requested / nothing was resolved yet
        rn = d['render']
        if rn is None:
            render = None
        elif rn[0] == 'callable':
            render = lab.render_obj(rn)
        else:
            cur = None
            facs = []
            for n, l in enumerate(levels):
                facs.append(l[0]['factory'])
                rebind = True if n == 0 else l[2]
                cand = next((f for f in reversed(facs) if f is not None), None)
                if (rebind or cur is None) and cand is not None:
                    cur = cand
            render = lab.factory(cur)(rn[1]) if cur is not None else None
        # a FRESH function for the wrapped endpoints: whatever an earlier binding did to the one the nested tree uses
        # must not be inherited by the reference declaration
        ep = lab.make_ep(d) if lab.decorated(d) else lab.route(d).endpoint
        kw = {}
        if d['methods'] is not None:
            kw['methods'] = d['methods']
        rt = Route(prefix + d['pattern'], ep, render, middlewares=[lab.mw(m) for m in mws], resources=res, slash_mode=eff, **kw)
        app.add(rt, inherit_slashes=False)
    return app


# ------------------------------------------------------------------ model side
def mw_sx(m):
    return [m['inst'], m['type'], bool(m['unique']), bool(m['reorderable']), m['provides']]


def env_sx(e):
    return [e['id'], [[n, v] for n, v in e['resources']], [mw_sx(m) for m in e['mws']], e['mode'], e['handler'],
            sexp.some(e['factory'])]


def rdecl_sx(d):
    rn = 'none' if d['render'] is None else d['render']
    return [d['key'], d['pattern'], d['mode'], sexp.some(d['methods']), [mw_sx(m) for m in d['mws']],
            [[n, v] for n, v in d['resources']], d['needs'], rn]


def entry_sx(e):
    if e[0] == 'route':
        return ['route', rdecl_sx(e[1]), bool(e[2])]
    return ['sub', e[1], env_sx(e[2]), [entry_sx(x) for x in e[3]], bool(e[4]), bool(e[5])]


def op_sx(op):
    if op[0] == 'new':
        return ['new', env_sx(op[1]), [entry_sx(e) for e in op[2]]]
    if op[0] == 'add':
        return ['add', op[1], entry_sx(op[2]), sexp.some(op[3])]
    return ['embed', op[1], op[2], op[3], bool(op[4]), bool(op[5]), sexp.some(op[6])]


def model_steps(line):
    def dec(x):
        if isinstance(x, list):
            return [dec(y) for y in x]
        s = x.decode('utf8', 'replace')
        return int(s) if s.lstrip('-').isdigit() else s
    out = []
    for obs, world in sexp.loads(line):
        o = dec(obs)
        w = {}
        for aid, routes in world:
            rs = []
            for b in routes:
                key, pat, mode, mws, res, rn, rerr, apps = b
                rs.append([int(key), pat.decode('utf8'), mode.decode(), [int(x) for x in mws],
                           sorted([n.decode(), int(v)] for n, v in res), dec(rn), int(rerr), [int(x) for x in apps]])
            w[aid.decode()] = rs
        out.append((o, w))
    return out


EXC = {'NameError': 'NameError', 'ValueError': 'ValueError', 'InvalidPattern': 'InvalidPattern'}


# ------------------------------------------------------------------ oracles
def entry_keys(e, trees=None):
    if e[0] == 'route':
        return [e[1]['key']]
    out = []
    for x in e[3]:
        out += entry_keys(x)
    return out


def oracle_c11(case, steps):
    prev_world, prev_probes = {}, {}
    first_state = {}
    handler_of = dict((str(op[1]['id']), str(op[1]['handler'])) for op in case['ops'] if op[0] == 'new')
    for n, (op, st) in enumerate(zip(case['ops'], steps)):
        what = 'step %d %s' % (n, op[0])
        for aid, probes in (st.get('probes') or {}).items():
            for pr in probes:
                if pr[1] == '/definitely/not/there' and pr[2] == 404 and aid in handler_of and pr[4] != handler_of[aid]:
                    return ('%s: the 404 of application %s for an unknown URL was rendered by error handler %s; its own is %s'
                            % (what, aid, pr[4], handler_of[aid]), 'foreign-handler')
        for aid, state in (st.get('appstate') or {}).items():
            if aid in first_state and state != first_state[aid]:
                return ('%s: application %s was constructed with middlewares / resources / slash mode %s and now has %s'
                        % (what, aid, first_state[aid], state), 'application-mutated')
            first_state.setdefault(aid, state)
        if st['routes_changed']:
            return ('%s changed the Route object(s) %s it was given' % (what, st['routes_changed']), 'route-mutated')
        tid = str(op[1]['id']) if op[0] == 'new' else str(op[1])
        for aid, snap in st['world'].items():
            if aid == tid and st['obs'] == 'ok':
                continue
            if aid in prev_world and snap != prev_world[aid]:
                return ('%s %s: the routing table of application %s changed: %s -> %s' % (
                    what, 'failed, yet' if st['obs'] != 'ok' else 'targets another application, yet', aid,
                    [r[1] for r in prev_world[aid]], [r[1] for r in snap]), 'failed-op-not-identity' if st['obs'] != 'ok' else 'frame')
            if aid in prev_probes and st['probes'][aid] != prev_probes[aid]:
                return ('%s: responses of application %s changed although it was not the (successful) target' % (what, aid),
                        'failed-op-not-identity' if st['obs'] != 'ok' else 'frame')
        if st['obs'] == 'ok' and op[0] == 'new' and 'flat' in st and all(e[0] == 'route' for e in op[2]):
            # an application made of plain routes only: Route objects that were bound before (into other applications, under
            # other slash modes) must serve exactly like freshly made ones
            for a, b2 in zip(st['probes'][tid], st['flat']):
                if a != b2:
                    return ('%s: %s %s on application %s answers %s; with freshly made Route objects of the same declaration %s'
                            % (what, a[0], a[1], tid, a[2:], b2[2:]), 'earlier-binding-influences')
        if st['obs'] == 'ok' and op[0] in ('add', 'embed') and tid in prev_world:
            old = [r[:2] for r in prev_world[tid]]
            new = [r[:2] for r in st['world'][tid]]
            index = op[3] if op[0] == 'add' else op[6]
            i = len(old) if index is None else (max(len(old) + index, 0) if index < 0 else min(index, len(old)))
            k = len(new) - len(old)
            if k < 0 or new[:i] != old[:i] or new[i + k:] != old[i:]:
                return ('%s at index %r: routes are %s, expected the new routes spliced in at %d of %s' % (
                    what, index, [p for _, p in new], i, [p for _, p in old]), 'splice')
            if op[0] == 'add':
                want = entry_keys(op[2])
                if [key for key, _ in new[i:i + k]] != want:
                    return ('%s: inserted routes %s, the entry declares %s in this order' % (what, new[i:i + k], want), 'splice-order')
            if op[0] == 'embed' and str(op[3]) in prev_world:
                want = [r[0] for r in prev_world[str(op[3])]]        # every route of the embedded application, in its order
                if [key for key, _ in new[i:i + k]] != want:
                    return ('%s: embedding application %s inserted routes %s; it has the routes %s' % (what, op[3], new[i:i + k], want),
                            'embed-incomplete')
            # the routing TABLE is what answers: the application must respond like one freshly declared with this very table
            if 'flat' in st:
                for a, b2 in zip(st['probes'][tid], st['flat']):
                    if a != b2:
                        return ('%s: %s %s on application %s answers %s although its routing table, declared afresh, answers %s'
                                % (what, a[0], a[1], tid, a[2:], b2[2:]), 'table-vs-responses')
        prev_world = st['world']
        prev_probes = st['probes']
    return None


def oracle_c10(case, steps):
    for n, (op, st) in enumerate(zip(case['ops'], steps)):
        if st['obs'] != 'ok' or 'flat' not in st:
            if 'flat_error' in st and st['obs'] == 'ok':
                return ('step %d: the nested application was constructed but its flat declaration is rejected: %s'
                        % (n, st['flat_error']), 'flat-rejected')
            continue
        tid = str(op[1]['id']) if op[0] == 'new' else str(op[1])
        nested = st['probes'][tid]
        if [r[1] for r in st['world'][tid]] != st['flat_patterns']:
            return ('step %d: nested application has patterns %s, the flat declaration %s' % (
                n, [r[1] for r in st['world'][tid]], st['flat_patterns']), 'patterns')
        for a, b2 in zip(nested, st['flat']):
            if a != b2:
                return ('step %d: %s %s: nested application answers %s, the flat declaration %s' % (n, a[0], a[1], a[2:], b2[2:]),
                        'nested-vs-flat')
    return None


ORACLES = {'C10': oracle_c10, 'C11': oracle_c11}


# ------------------------------------------------------------------ generation
class Gen(object):
    def __init__(self, rng):
        self.rng = rng
        self.key = 0
        self.inst = 0
        self.val = 100
        self.app = 0
        self.decls = []

    def mws(self, n, types):
        out = []
        for _ in range(n):
            t = self.rng.choice(types)
            self.inst += 1
            out.append({'inst': self.inst, 'type': t['type'], 'unique': t['unique'], 'reorderable': t['reorderable'],
                        'provides': []})
        return out

    def env(self, top_names=()):
        r = self.rng
        self.app += 1
        res = []
        for n in r.sample(['ra', 'rb', 'rc', 'rd'], r.choice([0, 1, 2])):
            self.val += 1
            res.append([n, 0 if r.random() < 0.25 else self.val])
        return {'id': self.app, 'resources': res, 'mws': self.mws(r.choice([0, 0, 1, 2]), self.types), 'mode': r.choice(MODES),
                'handler': r.choice([1, 2, 3]), 'factory': r.choice([None, None, 1, 2])}

    def rdecl(self, avail, fail=None, reuse=True):
        r = self.rng
        if reuse and self.decls and r.random() < 0.15 and fail is None:
            return r.choice(self.decls)
        self.key += 1
        pat = r.choice(['/a', '/a/', '/b/<x>', '/c/<y>/', '/err', '/d/<z*>', '/', '/e/f', '/g/<w:int>/'])
        res = []
        if r.random() < 0.25:
            self.val += 1
            res.append(['rr%d' % self.key, self.val])
        needs = [n for n in avail if r.random() < 0.4] + [n for n, _ in res]
        import re
        needs += [n for n in re.findall(r'<([a-z]+)', pat) if r.random() < 0.7]
        needs = list(dict.fromkeys(needs))        # a name shared by two levels is needed once
        if fail == 'need':
            needs.append('nowhere')
        if fail == 'pattern':
            pat = '/q/<x>/<x>' if r.random() < 0.5 else 'noslash'
        d = {'key': self.key, 'pattern': pat, 'mode': r.choice(MODES), 'methods': r.choice([None, None, ['GET'], ['POST']]),
             'mws': self.mws(r.choice([0, 0, 1]), self.types), 'resources': res, 'needs': needs,
             'render': r.choice([None, None, ['callable', r.choice([1, 2])], ['arg', r.choice(['t1', 't2'])]])}
        if fail is None:
            self.decls.append(d)
        return d

    def entries(self, env, depth, avail, nmax=3, fail_at=None):
        r = self.rng
        out = []
        n = r.choice([1, 2, nmax])
        for k in range(n):
            f = fail_at if (fail_at and k == n - 1) else None
            if depth > 0 and r.random() < 0.4:
                inner = self.env()
                # a name defined by two inner levels only has no documented precedence: keep inner names disjoint
                # ... but a name may be shared with the OUTERMOST application (its value wins for every consumer)
                inner['resources'] = [[nm if (nm in getattr(self, 'top_names', ()) and r.random() < 0.5) else nm + str(inner['id']), v]
                                      for nm, v in inner['resources']]
                sub = self.entries(inner, depth - 1, avail + [nm for nm, _ in inner['resources']], 2, f)
                prefix = r.choice(['/p%d' % inner['id'], '/p%d/' % inner['id'], '/', '/<pre>' if f == 'prefix' else '/s', '/v1.%d' % inner['id']])
                out.append(['sub', prefix, inner, sub, r.random() < 0.4, r.random() < 0.6])
            else:
                out.append(['route', self.rdecl(avail, f), r.random() < 0.75])
        return out

    def case(self, tier):
        r = self.rng
        ntypes = r.choice([2, 3])
        self.types = [{'type': t, 'unique': r.random() < 0.7, 'reorderable': r.random() < 0.85} for t in range(ntypes)]
        ops, live = [], []
        size = {}          # application id -> number of routes asked for so far (embedding an application into itself doubles it)
        nops = r.choice([2, 4, 6, 8]) if tier == 'quick' else r.choice([6, 12, 20, 40])
        for _ in range(nops):
            x = r.random()
            if not live or x < 0.3:
                env = self.env()
                fail = r.choice(['need', 'pattern']) if r.random() < 0.15 else None
                self.top_names = [n for n, _ in env['resources']]
                ops.append(['new', env, self.entries(env, r.choice([0, 1, 2]), [n for n, _ in env['resources']], 3, fail)])
                if fail is None:
                    live.append(env)
                    size[env['id']] = sum(count_leaves(e) for e in ops[-1][2])
            elif x < 0.75:
                env = r.choice(live)
                self.top_names = [n for n, _ in env['resources']]
                fail = r.choice(['need', 'pattern']) if r.random() < 0.3 else None
                e = self.entries(env, r.choice([0, 0, 1, 2]), [n for n, _ in env['resources']], 3, fail)[-1]
                ops.append(['add', env['id'], e, r.choice([None, None, 0, 1, 2, -1, -2, 7, -9])])
                if fail is None:
                    size[env['id']] = size.get(env['id'], 0) + count_leaves(e)
            else:
                a, b2 = r.choice(live), r.choice(live)
                if a is b2 and r.random() < 0.8 and len(live) > 1:
                    b2 = r.choice([x for x in live if x is not a])      # self-embedding stays in, but rarely
                if size.get(a['id'], 0) + size.get(b2['id'], 0) > 150:
                    continue              # finite, but far beyond what a case may cost: the table would double again
                ops.append(['embed', a['id'], r.choice(['/m%d' % b2['id'], '/m/', '/', '/api.v%d' % b2['id']]), b2['id'], r.random() < 0.3, r.random() < 0.6,
                            r.choice([None, None, 0, 1, -1])])
                size[a['id']] = size.get(a['id'], 0) + size.get(b2['id'], 0)
        return {'ops': ops}


def gen_case(rng, tier):
    return Gen(rng).case(tier)


def directed_cases():
    """two small systematic families that random generation reaches only rarely:
    (A) a route whose render argument is resolved by a factory, three applications deep, for every combination
        of factory presence per level and of the two rebind_render flags;
    (B) ONE Route object bound into two applications with different slash modes (same full pattern)."""
    out = []

    def env(i, factory, mode='redirect'):
        return {'id': i, 'resources': [], 'mws': [], 'mode': mode, 'handler': 1, 'factory': factory}

    def decl(key, pattern, render, mode='redirect'):
        return {'key': key, 'pattern': pattern, 'mode': mode, 'methods': None, 'mws': [], 'resources': [], 'needs': [],
                'render': render}
    for f_top in (None, 1, 2):
        for f_mid in (None, 1, 2):
            for f_home in (None, 1, 2):
                for rb_top in (False, True):
                    for rb_mid in (False, True):
                        home = [['route', decl(1, '/tmpl', ['arg', 't1']), True], ['route', decl(2, '/own', ['callable', 1]), True]]
                        mid = [['sub', '/m', env(3, f_home), home, rb_mid, True]]
                        top = [['sub', '/o', env(2, f_mid), mid, rb_top, True]]
                        out.append({'ops': [['new', env(1, f_top), top]]})
    k = 10
    for m1 in MODES:
        for m2 in MODES:
            if m1 == m2:
                continue
            for pat in ('/a', '/c/<y>/', '/g/<w:int>/'):
                for inh1 in (True, False):
                    k += 1
                    d = decl(k, pat, None, mode=m2 if not inh1 else 'redirect')
                    out.append({'ops': [['new', env(1, None, m1), [['route', d, inh1]]],
                                        ['new', env(2, None, m2), [['route', d, True]]],
                                        ['new', env(3, None, m1), [['route', d, True]]]]})
    return out


def shrink(case):
    prop = case.get('_prop', 'C11')
    orc = ORACLES[prop]

    def fails(ops):
        c = dict(case, ops=ops)
        try:
            return orc(c, impl(c)) is not None
        except Exception:
            return False
    if not fails(case['ops']):
        return case
    from harness.lab import ddmin_list
    return dict(case, ops=ddmin_list(case['ops'], fails, max_steps=60))


def run(prop, rep, b, tier, seed, only_cases=None):
    rep.shrink_module = 'worldprops_worker'
    rng = random.Random(seed * 86028121 + 10)
    corpus = [c['case'] if 'case' in c else c for c in core.load_corpus(prop) + core.load_corpus('world')]
    cases = list(only_cases) if only_cases is not None else corpus + directed_cases() + [gen_case(rng, tier) for _ in range(400 if tier == 'quick' else 3000)]
    for c in cases:
        c['_prop'] = prop
    rep.rule = ('worldlab: histories of %s operations {construct application with up to 3 entries per level and inline embedded '
                'applications to depth 2 (prefixes with/without trailing slash and "/"; rebind_render / inherit_slashes on and '
                'off; per-level resources, middleware lists over 2-3 shared types incl. unique / non-reorderable, slash modes, 3 '
                'error handlers, 2 render factories), add route / sub-application at an index (None, in range, negative, out of '
                'range), embed a live application in another, failing entries (unresolved dependency, bad pattern; possibly as the '
                'k-th route of an embedded application; unique non-reorderable middleware twice), one Route object bound into '
                'several applications; plus two systematic families: a factory-resolved renderer three applications deep under every combination of factory presence and rebind flags (108), and one Route object bound into applications of different slash modes (36)}; after EVERY operation every live application is snapshotted (per bound route: pattern, '
                'slash mode, middleware instances, resources, renderer, error handler, bound_apps) and probed with GET/POST on paths '
                'derived from its patterns (incl. non-canonical and unknown ones); compared with Model/World.v and with the '
                'oracles. non-trivial = histories with an embedding or a failing operation.'
                % ('2-8' if tier == 'quick' else '6-40'))
    rep.assumptions = ['the dependency check is reduced to "every needed name has a source" in the World model (C01 decides it in full)',
                       'a resource name defined only by two inner levels has no documented precedence: the generator keeps inner names disjoint']
    obs = core.run_impl_workers('worldprops_worker', cases)[0]
    model_out = None
    if b.driver_ok:
        try:
            model_out = core.run_model('worldlab ' + sexp.dumps([op_sx(op) for op in c['ops']]) for c in cases)
        except Exception as e:  # noqa
            rep.broken('model worldlab is not executable: %s' % e)
    else:
        rep.broken('model worldlab is not executable (extraction or driver build failed)')
    orc = ORACLES[prop]
    ndiff = 0
    for i, (c, steps) in enumerate(zip(cases, obs)):
        if isinstance(steps, dict) and '_harness_exception' in steps:
            rep.broken('harness exception on implementation side', {'case': c, 'obs': steps})
            continue
        v = orc(c, steps)
        if v:
            rep.violation(v[0], {'case': c, 'signature': v[1], 'lab': 'worldlab'})
        dotted = '/v1.' in json.dumps(c['ops']) or '/api.v' in json.dumps(c['ops'])
        if dotted:
            rep.count('prefix_with_dot (outside the World model: oracles only)')
        if model_out is not None and not dotted:
            try:
                ms = model_steps(model_out[i])
            except Exception as e:  # noqa
                ms = None
                ndiff += 1
                if ndiff <= 5:
                    rep.broken('model output unreadable: %s %s' % (e, model_out[i][:200]), {'case': c})
            if ms is not None:
                bad = None
                for n, ((mo, mw), st) in enumerate(zip(ms, steps)):
                    io = st['obs']
                    if isinstance(io, list):
                        io = ['fail', EXC.get(io[1], io[1])]
                    if mo != io:
                        bad = 'step %d %s: model %s, implementation %s (%s)' % (n, c['ops'][n][0], mo, st['obs'], st.get('detail'))
                        break
                    if mw != st['world']:
                        aid = next(a for a in sorted(set(mw) | set(st['world'])) if mw.get(a) != st['world'].get(a))
                        mr, ir = mw.get(aid) or [], st['world'].get(aid) or []
                        k = next((k for k in range(min(len(mr), len(ir))) if mr[k] != ir[k]), min(len(mr), len(ir)))
                        bad = 'step %d %s: application %s route %d: model %s, implementation %s' % (
                            n, c['ops'][n][0], aid, k, mr[k] if k < len(mr) else None, ir[k] if k < len(ir) else None)
                        break
                if bad:
                    ndiff += 1
                    if ndiff <= 5:
                        rep.broken('correspondence worldlab: ' + bad, {'case': c})
                else:
                    rep.traces += 1
        kinds = [op[0] for op in c['ops']]
        fails = sum(1 for st in steps if st['obs'] != 'ok')
        rep.count('ops', len(kinds))
        rep.count('failed_ops', fails)
        rep.count('embeds', kinds.count('embed') + sum(json.dumps(op).count('"sub"') for op in c['ops']))
        rep.count('flat_checked', sum(1 for st in steps if 'flat' in st))
        rep.case(json.dumps(c, sort_keys=True), nontrivial=(fails > 0 or 'embed' in kinds or '"sub"' in json.dumps(c)))
    rep.samples = cases[:1]


def replay(prop, rep, b, path):
    j = json.load(open(path))
    run(prop, rep, b, 'quick', 0, only_cases=[j['case']])
