"""C06 / C08 (and the redirect decision of C07): dispatchlab.

A case is a routing table over a catalogue of patterns x method sets x endpoint
behaviours x per-route error renderers, an application error-handler kind, a way
of building the table (constructor list or a sequence of add(entry, index)) and
a sequence of requests sent to ONE application object.  Every response carries
markers in headers (which route answered, which error renderer ran) so that the
canonical observation is independent of bodies."""
import json
import random

from harness import core, sexp

PATTERNS = ['/a', '/a/', '/a/<x>', '/a/<x:int>', '/<y>', '/<y>/', '/a/b', '/<p*>', '/b/<q+>/', '/c/<z?>',
            '/a/<x>/c', '/', '/n/<ns+int>', '/a/<f:float>', '/k/<code:int>', '/k/<detail>', '/k/<mimetype>/<is_breaking>']
PATHS = ['/', '/a', '/a/', '/a//', '/a/1', '/a/b', '/a/b/', '/a/x/c', '/b', '/b/1/2', '/b/1/2/', '/b//1/', '/c',
         '/c/', '/c/z', '/zz', '/zz/', '/a/1/', '//a', '/A', '/a/1x',
         # segments the lexical regexes of int/float admit but the conversion rejects (sign, blank, digits; an empty
         # segment inside a typed multi binding): no match, never an exception
         '/a/+ 1', '/a/- .5', '/n/1//2', '/n/3/4', '/k/404', '/k/200', '/k/abc', '/k/text/0']
REQ_METHODS = ['GET', 'GET', 'HEAD', 'POST', 'PUT', 'get', 'FOO', 'DELETE', 'post']
METHOD_SETS = [None, None, ['GET'], ['POST'], ['get', 'put'], ['POST', 'DELETE'], ['HEAD'], [], ['GET', 'POST']]
BEHAVIOURS = ['ok', 'ok', 'ok', 'ctx', 'nonresp', 'none', 'raise404nb', 'ret403nb', 'raise409', 'ret503',
              'raise500nb', 'boom', 'weird', 'reroute', 'ret404nb', 'ret503_rendered', 'ret403nb_rendered', 'boombraces', 'raise400braces',
              'ret403nb_shared', 'raise404nb_shared', 'boomtype']
OUT = {'ok': ['resp', 'ok'], 'ctx': ['resp', 'ok'], 'nonresp': 'nonresp', 'none': 'nonresp',
       'raise404nb': ['http', 404, False], 'ret404nb': ['http', 404, False], 'ret403nb': ['http', 403, False],
       'raise409': ['http', 409, True], 'ret503': ['http', 503, True], 'raise500nb': ['http', 500, False],
       'boom': ['raise', 'ValueError'], 'weird': ['raise', 'RuntimeError'], 'reroute': 'reroute',
       # messages that are format-string syntax: '{0}', '{name!r}', a lone '}' (dict reprs, JSON snippets, templates)
       'boombraces': ['raise', 'KeyError'], 'raise400braces': ['http', 400, True],
       # ONE prepared error instance handed out on every request (a module-level constant of the application)
       'ret403nb_shared': ['http', 403, False], 'raise404nb_shared': ['http', 404, False],
       # application code raising TypeError itself (a re-raising handler hands the server that very exception)
       'boomtype': ['raise', 'TypeError'],
       # an HTTPException RETURNED by the endpoint of a route that has a render function: its own status, not a rendering of it
       'ret503_rendered': ['http', 503, True], 'ret403nb_rendered': ['http', 403, False]}
HANDLERS = {'default': ('default', 'adapt'), 'reraise': ('reraise', 'adapt'), 'contextual': ('default', 'adapt'),
            'broken_classattr': ('default', 'raises'),
            'broken': ('default', 'raises'), 'other': ('default', ['other', 'APPOTHER']),
            'contextual_reraise': ('default', 'adapt')}
ACCEPTS = [None, 'text/html', 'application/json', '*/*', 'application/xml;q=0.9, text/plain', 'image/png', 'garbage;;q=x']


RAISED = []          # exception objects raised by application code of the lab, in order


def build(case):
    from clastic import Application, Route, Response
    from clastic.application import RerouteWSGI
    from clastic import errors as E

    def tagged(cls):
        class Tagged(cls):
            def render_error(self, request, _error):
                ret = super(Tagged, self).render_error(request=request, _error=_error)
                ret.headers['X-Src'] = 'app'
                return ret
        return Tagged
    hk = case['handler']
    if hk == 'default':
        handler = tagged(E.ErrorHandler)()
    elif hk == 'reraise':
        handler = tagged(E.ErrorHandler)(reraise_uncaught=True)
    elif hk == 'contextual':
        handler = tagged(E.ContextualErrorHandler)()
    elif hk == 'contextual_reraise':
        handler = tagged(E.ContextualErrorHandler)(reraise_uncaught=True)   # O15: ignores the flag
    elif hk in ('broken', 'broken_classattr'):
        class Broken(E.ErrorHandler):
            def render_error(self, request, _error):
                raise RuntimeError('render_error is broken')
        handler = Broken()
    else:
        class Other(E.ErrorHandler):
            def render_error(self, request, _error):
                return Response('other', status=299, headers={'X-Other': 'APPOTHER'})
        handler = Other()

    def mk_target(k):
        def target(environ, start_response):
            start_response('200 OK', [('Content-Type', 'text/plain'), ('X-Reroute', str(k))])
            return [b'rerouted']
        return target

    def mk_endpoint(k, beh):
        hdr = {'X-Route': str(k)}
        if beh == 'ok':
            return (lambda: Response('ok', headers=hdr)), None
        if beh == 'ctx':
            return (lambda: {'k': k}), (lambda context: Response('ok', headers=hdr))
        if beh == 'nonresp':
            return (lambda: 'just a string'), None
        if beh == 'none':
            return (lambda: None), None
        if beh == 'raise404nb':
            def f():
                raise E.NotFound(is_breaking=False)
            return f, None
        if beh == 'ret404nb':
            return (lambda: E.NotFound(is_breaking=False)), None
        if beh == 'ret403nb':
            return (lambda: E.Forbidden(is_breaking=False)), None
        if beh == 'raise409':
            def f():
                raise E.Conflict()
            return f, None
        if beh == 'ret503':
            return (lambda: E.ServiceUnavailable()), None
        if beh == 'ret503_rendered':
            return (lambda: E.ServiceUnavailable()), (lambda context: Response('ok', headers=hdr))
        if beh == 'ret403nb_rendered':
            return (lambda: E.Forbidden(is_breaking=False)), (lambda context: Response('ok', headers=hdr))
        if beh == 'raise500nb':
            def f():
                raise E.InternalServerError(is_breaking=False)
            return f, None
        if beh == 'boom':
            def f():
                raise ValueError('boom <b>&"\'')
            return f, None
        if beh == 'weird':
            class Unprintable(object):
                def __repr__(self):
                    raise KeyError('no repr')
            def f():
                raise RuntimeError(u'é中' * 3000, Unprintable() if k % 2 else 'x')
            return f, None
        if beh == 'ret403nb_shared':
            one = E.Forbidden(is_breaking=False)
            return (lambda: one), None
        if beh == 'raise404nb_shared':
            one = E.NotFound(is_breaking=False)

            def f():
                raise one
            return f, None
        if beh == 'boomtype':
            def f():
                exc = TypeError("unsupported operand type(s) for +: 'int' and 'str' <%d>" % k)
                RAISED.append(exc)
                raise exc
            return f, None
        if beh == 'boombraces':
            def f():
                raise KeyError({'user': 'x', 'fmt': '{0} {name!r} }{'})
            return f, None
        if beh == 'raise400braces':
            def f():
                raise E.BadRequest('expected {"name": ...} or {0}, got }{ and {missing[key]}')
            return f, None
        if beh == 'reroute':
            return RerouteWSGI(mk_target(k)), None
        raise ValueError(beh)

    def mk_rerr(k, kind):
        if kind == 'adapt':
            def render_error(request, _error):
                best = request.accept_mimetypes.best_match(E.MIME_SUPPORT_MAP)
                _error.adapt(best)
                _error.headers['X-Src'] = str(k)
                return _error
            return render_error
        if kind == 'raises':
            def render_error(request, _error):
                raise KeyError('route renderer broken')
            return render_error
        if kind == 'raises_http':
            def render_error(request, _error):
                raise E.ServiceUnavailable('renderer gave up')      # a failing renderer is a failing renderer, whatever it raises
            return render_error
        if kind == 'reraises':
            def render_error(request, _error):
                raise _error
            return render_error
        if kind == 'other':
            def render_error(request, _error):
                return Response('other', status=299, headers={'X-Other': 'R%d' % k})
            return render_error
        if kind == 'notcallable':
            return 'not-callable'
        return None

    routes = []
    for k, r in enumerate(case['routes']):
        ep, rn = mk_endpoint(k, r['beh'])
        kw = {}
        if r['methods'] is not None:
            kw['methods'] = r['methods']
        if r.get('route_mode'):
            kw['slash_mode'] = r['route_mode']
        routes.append(Route(r['pattern'], ep, rn, render_error=mk_rerr(k, r.get('own_rerr')), **kw))

    def addkw(r):
        kw = {}
        if r.get('own_rerr'):
            kw['rebind_render_error'] = False
        if r.get('route_mode'):
            kw['inherit_slashes'] = False
        return kw
    if hk == 'broken_classattr':
        # the handler is installed through the documented class attribute instead of the constructor argument
        class Application(Application):
            default_error_handler_type = type(handler)
        handler = None
    if case.get('build'):
        app = Application([], error_handler=handler, slash_mode=case['app_mode'])
        for k, idx in case['build']:
            app.add(routes[k], idx, **addkw(case['routes'][k]))
    else:
        app = Application([], error_handler=handler, slash_mode=case['app_mode'])
        for k, r in enumerate(case['routes']):
            app.add(routes[k], **addkw(r))
    return app, routes


def final_order(case):
    """the routing table the property demands: Python's own list splice"""
    if not case.get('build'):
        return list(range(len(case['routes'])))
    table = []
    for k, idx in case['build']:
        if idx is None:
            table.append(k)
        else:
            i = max(len(table) + idx, 0) if idx < 0 else min(idx, len(table))
            table.insert(i, k)
    return table


def impl(case):
    from harness import wsgi
    from urllib.parse import urlsplit, unquote
    try:
        app, routes = build(case)
    except Exception as e:
        return {'construct': type(e).__name__}
    order = [next(k for k, r in enumerate(routes) if br.unbound_route is r) for br in app.routes]
    obs = {'construct': 'ok', 'order': order, 'requests': []}
    for method, path, accept in case['requests']:
        bits = []
        for br in app.routes:
            try:
                bits.append(br.match_path('/' + path.lstrip('/')) is not None)
            except Exception:
                bits.append(False)        # the request below shows what the application does with it
        qs = ['q=1', '', 'x=\xff\xfe', 'a=%zz&b=+'][(len(path) + len(method)) % 4]      # incl. raw non-UTF-8 bytes (F13)
        del RAISED[:]
        r = wsgi.get(app, path, method=method, query=qs, headers={'Accept': accept} if accept else None)
        same_exc = None
        if r.exc is not None and RAISED:
            same_exc = r.exc is RAISED[-1]
        if r.exc is not None:
            o = ['escape', type(r.exc).__name__]
        elif r.header('X-Reroute') is not None:
            o = ['reroute', int(r.header('X-Reroute'))]
        elif r.header('X-Route') is not None:
            o = ['resp', int(r.header('X-Route'))]
        elif r.header('X-Other') is not None:
            o = ['other', r.header('X-Other')]
        elif r.code in (301, 302, 303, 307, 308) and r.header('Location'):
            o = ['redirect', unquote(urlsplit(r.header('Location')).path)]
        else:
            allow = r.header('Allow')
            o = ['err', r.header('X-Src') or 'default', r.code,
                 sorted(set(x.strip() for x in allow.split(','))) if allow else []]
        clen = r.header('Content-Length')
        obs['requests'].append({'bits': bits, 'result': o, 'sr_calls': r.sr_calls, 'status': r.status,
                                'ctype': r.header('Content-Type'), 'same_exc': same_exc,
                                'clen': clen, 'body_len': len(r.body) if r.exc is None else None})
    return obs


# ------------------------------------------------------------------ model side
def route_sx(case, k):
    r = case['routes'][k]
    own = r.get('own_rerr')
    rerr = (['other', 'R%d' % k] if own == 'other' else 'raises' if own in ('raises_http', 'reraises') else own) if own else \
        HANDLERS[case['handler']][1]
    mode = r.get('route_mode') or case['app_mode']
    return ['F', sexp.some(r['methods']), r['pattern'], mode, OUT[r['beh']], rerr]


def to_model(case, obs):
    order = obs['order']
    h, nre = HANDLERS[case['handler']]
    reqs = [[m, '/' + p.lstrip('/'), [bool(b) for b in o['bits']]] for (m, p, a), o in zip(case['requests'], obs['requests'])]
    return [h, nre, [route_sx(case, k) for k in order], reqs]


def canon_model(case, obs, line):
    """model output -> the canonical observation form (route indices are declaration indices)"""
    order = obs['order']
    out = []
    for f in sexp.loads(line):
        kind = f[0].decode()
        if kind == 'resp':
            out.append(['resp', order[int(f[1])]])
        elif kind == 'redirect':
            out.append(['redirect', f[2].decode('utf8', 'surrogateescape')])
        elif kind == 'err':
            src = int(f[1])
            if f[4] == b'T':
                marker = 'default'
            elif src < len(order) and case['routes'][order[src]].get('own_rerr') == 'adapt':
                marker = str(order[src])
            else:
                marker = 'app'
            out.append(['err', marker, int(f[2]), sorted(set(x.decode() for x in f[3]))])
        elif kind == 'other':
            out.append(['other', f[2].decode()])
        elif kind == 'escape':
            out.append(['escape', f[1].decode()])
        elif kind == 'reroute':
            out.append(['reroute', order[int(f[1])]])
        else:
            out.append([kind] + [x.decode() if isinstance(x, bytes) else x for x in f[1:]])
    return out


# ------------------------------------------------------------------ direct oracles
def norm_methods(ms):
    if not ms:
        return None
    s = set(m.upper() for m in ms)
    if 'GET' in s:
        s.add('HEAD')
    return s


def expected(case, order, method, bits):
    """the property text, route by route (C06 + the status clauses of C08)"""
    softs, allowed, matched = [], set(), False
    h, nre = HANDLERS[case['handler']]
    for pos, k in enumerate(order):
        r = case['routes'][k]
        if not bits[pos]:
            continue
        matched = True
        ms = norm_methods(r['methods'])
        if ms is not None and method.upper() not in ms:
            allowed |= ms
            continue
        return_here = ('route', k, r)
        return return_here, softs, allowed, matched
    return None, softs, allowed, matched


def oracle(prop, case, obs):
    if obs.get('construct') != 'ok':
        bad = [m for r in case['routes'] for m in (r['methods'] or []) if m.upper() not in
               ('CONNECT', 'DELETE', 'GET', 'HEAD', 'OPTIONS', 'PATCH', 'POST', 'PUT', 'TRACE')]
        if not bad:
            return ('a valid routing table was rejected at construction: %s' % obs.get('construct'), 'construct')
        return None
    want_order = final_order(case)
    if obs['order'] != want_order:
        return ('routes are in order %s, add()/constructor order demands %s' % (obs['order'], want_order), 'order')
    order = obs['order']
    h, nre = HANDLERS[case['handler']]
    for (method, path, accept), o in zip(case['requests'], obs['requests']):
        res = o['result']
        if o['sr_calls'] != 1 and res[0] != 'escape':
            return ('start_response called %d times for %s %s' % (o['sr_calls'], method, path), 'no-response')
        # walk the table as the property text says
        softs, allowed, matched, answer = [], set(), False, None
        norm = '/' + '/'.join(x for x in path.split('/') if x)
        for pos, k in enumerate(order):
            r = case['routes'][k]
            if not o['bits'][pos]:
                continue
            matched = True
            ms = norm_methods(r['methods'])
            if ms is not None and method.upper() not in ms:
                allowed |= ms
                continue
            mode = r.get('route_mode') or case['app_mode']
            if r['pattern'].endswith('/'):
                canon = norm.rstrip('/') + '/'
                if canon != '/' + path.lstrip('/'):
                    if mode == 'redirect':
                        answer = ['redirect', canon]
                        break
                    if mode == 'strict':
                        softs.append((k, 404))
                        continue
            out = OUT[r['beh']]
            if out == 'nonresp' or out[0] == 'raise':
                cls = 'TypeError' if out == 'nonresp' else out[1]
                answer = ['escape', cls] if h == 'reraise' else ['status', 500, k]
                break
            if out == 'reroute':
                answer = ['reroute', k]
                break
            if out[0] == 'resp':
                answer = ['resp', k]
                break
            if out[2]:
                answer = ['status', out[1], k]
                break
            softs.append((k, out[1]))
        if answer is None:
            if softs:
                answer = ['status', softs[-1][1], softs[-1][0]]
            elif allowed:
                answer = ['status', 405, None, sorted(allowed)]
            else:
                answer = ['status', 404, None]
        what = '%s %s (Accept %r)' % (method, path, accept)
        if answer[0] == 'status':
            if res[0] == 'other':
                continue                       # a render_error that returns something else: its choice
            if res[0] != 'err' or res[2] != answer[1]:
                return ('%s: expected an error response with status %s, got %s' % (what, answer[1], res), 'status')
            if answer[1] == 405 and len(answer) > 3 and res[3] != answer[3]:
                return ('%s: 405 Allow is %s, the path-matching routes admit %s' % (what, res[3], answer[3]), 'allow')
        elif res != answer:
            return ('%s: expected %s, got %s' % (what, answer, res), 'answer')
        if res[0] == 'escape' and o.get('same_exc') is False:
            return ('%s: the exception that reached the server is not the one the application raised (same class, another object)' % what,
                    'escape-other-object')
        if method.upper() != 'HEAD' and o.get('clen') is not None and o.get('body_len') is not None and res[0] in ('err', 'resp') \
                and str(o['body_len']) != o['clen']:
            return ('%s: Content-Length %s announced, %d body bytes sent' % (what, o['clen'], o['body_len']), 'content-length')
    return None


# ------------------------------------------------------------------ generation
def gen_case(rng, tier, exhaustive=None):
    n = rng.choice([1, 2, 2, 3, 3, 4])
    routes = []
    for _ in range(n):
        own = rng.choice([None, None, None, 'adapt', 'raises', 'raises_http', 'reraises', 'other', 'notcallable'])
        routes.append({'pattern': rng.choice(PATTERNS), 'methods': rng.choice(METHOD_SETS),
                       'beh': rng.choice(BEHAVIOURS), 'own_rerr': own,
                       'route_mode': rng.choice([None, None, None, 'strict', 'redirect', 'rewrite'])})
    case = {'lab': 'dispatch', 'app_mode': rng.choice(['redirect', 'redirect', 'strict', 'rewrite']),
            'handler': rng.choice(['default', 'default', 'reraise', 'contextual', 'broken', 'broken_classattr', 'other', 'contextual_reraise']),
            'routes': routes, 'build': None}
    if rng.random() < 0.5:
        ks = list(range(n))
        rng.shuffle(ks)
        case['build'] = [[k, rng.choice([None, None, 0, 1, 2, -1, -2, 5, -7])] for k in ks]
    nreq = rng.choice([3, 6, 10]) if tier == 'quick' else rng.choice([6, 12, 20])
    case['requests'] = [[rng.choice(REQ_METHODS), rng.choice(PATHS), rng.choice(ACCEPTS)] for _ in range(nreq)]
    return case


def small_tables():
    """every table of <= 2 routes over a reduced catalogue, all requests"""
    pats = ['/a', '/a/', '/<y>', '/a/<x:int>']
    msets = [None, ['GET'], ['POST']]
    behs = ['ok', 'raise404nb', 'ret503', 'boom']
    reqs = [[m, p, None] for m in ('GET', 'HEAD', 'post', 'FOO') for p in ('/a', '/a/', '/a/1', '/zz', '/a//')]
    out = []
    singles = [{'pattern': p, 'methods': m, 'beh': b, 'own_rerr': None, 'route_mode': None}
               for p in pats for m in msets for b in behs]
    for a in singles:
        out.append({'lab': 'dispatch', 'app_mode': 'redirect', 'handler': 'default', 'routes': [a], 'build': None,
                    'requests': reqs})
    for i, a in enumerate(singles):
        for j, b in enumerate(singles):
            if (i * 7 + j) % 5 == 0:
                out.append({'lab': 'dispatch', 'app_mode': 'redirect' if (i + j) % 3 else 'strict', 'handler': 'default',
                            'routes': [dict(a), dict(b)], 'build': None, 'requests': reqs})
    # three (and four) routes for one path that all back out softly: the MOST RECENT error answers, whatever came before
    soft = ['ret403nb', 'raise404nb', 'raise500nb', 'ret404nb']
    import itertools
    for combo in list(itertools.product(soft, repeat=3)) + [('ret403nb', 'raise404nb', 'ret403nb', 'raise404nb')]:
        for pat in ('/a', '/a/<x>'):
            out.append({'lab': 'dispatch', 'app_mode': 'redirect', 'handler': 'default', 'build': None,
                        'routes': [{'pattern': pat, 'methods': None, 'beh': b, 'own_rerr': None, 'route_mode': None} for b in combo],
                        'requests': [['GET', '/a', None], ['POST', '/a/1', 'application/json'], ['GET', '/a', 'text/html']]})
    # histories over a route that hands out ONE prepared soft error: first the error is the final answer (no later route
    # admits the method), then a later route admits the request - the table is what it was, so must the answer be
    for beh in ('ret403nb_shared', 'raise404nb_shared'):
        for later in ('ok', 'ctx', 'ret503'):
            for handler in ('default', 'contextual', 'other'):
                out.append({'lab': 'dispatch', 'app_mode': 'redirect', 'handler': handler, 'build': None,
                            'routes': [{'pattern': '/a', 'methods': None, 'beh': beh, 'own_rerr': None, 'route_mode': None},
                                       {'pattern': '/a', 'methods': ['GET'], 'beh': later, 'own_rerr': None, 'route_mode': None}],
                            'requests': [['GET', '/a', None], ['PUT', '/a', None], ['GET', '/a', None], ['PUT', '/a', 'text/html'],
                                         ['GET', '/a', 'application/json']]})
    return out


def gen_methods_case(rng):
    pool = ['GET', 'get', 'Post', 'PUT', 'delete', 'HEAD', 'OPTIONS', 'patch', 'TRACE', 'connect', 'FOO', 'ge t', '', 'BREW']
    k = rng.choice([0, 1, 1, 2, 3])
    ms = None if rng.random() < 0.1 else [rng.choice(pool) for _ in range(k)]
    return {'lab': 'methods', 'methods': ms, 'probes': ['GET', 'get', 'HEAD', 'head', 'POST', 'pOsT', 'PUT', 'FOO', 'DELETE',
                                                        'OPTIONS', 'PATCH', 'TRACE', 'CONNECT']}


def impl_methods(case):
    from clastic import Route, Application, Response
    from clastic.route import InvalidMethod
    try:
        kw = {} if case['methods'] is None else {'methods': case['methods']}
        rt = Route('/m', lambda: Response('x'), **kw)
    except InvalidMethod:
        return ['raise', 'InvalidMethod']
    except Exception as e:
        return ['raise', type(e).__name__]
    br = Application([rt]).routes[0]
    return ['ok', [bool(br.match_method(m)) for m in case['probes']]]


def impl_any(case):
    return impl_methods(case) if case['lab'] == 'methods' else impl(case)


def shrink(case):
    prop = case.get('_prop', 'C06')
    if case.get('lab') != 'dispatch':
        return case

    def fails(c):
        try:
            return oracle(prop, c, impl(c)) is not None
        except Exception:
            return False
    if not fails(case):
        return case
    cur = json.loads(json.dumps(case))
    # fewer requests first (keep order: histories matter)
    from harness.lab import ddmin_list
    cur['requests'] = ddmin_list(cur['requests'], lambda rq: fails(dict(cur, requests=rq)))
    for k in reversed(range(len(cur['routes']))):
        c = json.loads(json.dumps(cur))
        del c['routes'][k]
        if c.get('build'):
            c['build'] = [[a if a < k else a - 1, b] for a, b in c['build'] if a != k]
        if c['routes'] and fails(c):
            cur = c
    return cur


def run(prop, rep, b, tier, seed, only_cases=None):
    rep.shrink_module = 'dispatchprops_worker'
    rng = random.Random(seed * 15485863 + 6)
    corpus = [c['case'] if 'case' in c else c for c in core.load_corpus(prop) + core.load_corpus('dispatch')]
    if only_cases is not None:
        cases = list(only_cases)
    else:
        cases = corpus + small_tables() + [gen_case(rng, tier) for _ in range(1200 if tier == 'quick' else 12000)]
        cases += [gen_methods_case(rng) for _ in range(150 if tier == 'quick' else 1500)]
    for c in cases:
        c['_prop'] = prop
    rep.rule = ('dispatchlab: routing tables of 1-4 routes over %d patterns x %d method sets x %d endpoint behaviours x 5 '
                'per-route error renderers x route-level slash modes, 7 error-handler kinds, built by constructor or by a '
                'random sequence of add(entry, index) (indices incl. negative and out of range), request sequences over %d '
                'paths x %d methods x %d Accept headers against one application object; every table of <=2 routes over a '
                'reduced catalogue with all its requests; observed: escaping exception, answering route (header marker), '
                'status, Allow, redirect target, which error renderer ran; match bits are taken from BoundRoute.match_path '
                '(C05 decides those). methods lab: Route(methods=...) x 13 probe methods. non-trivial = tables with >= 2 '
                'routes whose requests reach a non-first route or an error path.'
                % (len(PATTERNS), len(METHOD_SETS), len(set(BEHAVIOURS)), len(PATHS), len(set(REQ_METHODS)), len(ACCEPTS)))
    rep.assumptions = ['werkzeug Request.path/method, redirect(), BaseResponse.__call__ behave as documented',
                       'ExceptionInfo.from_current / repr of the exception do not raise (exercised with unprintable, '
                       'huge and non-ASCII exception arguments)',
                       'whether a pattern matches a path is an input of the dispatch model (decided by C05); additionally every table is routed by the composed model (pattern parser + matcher + dispatch) and both must agree']
    obs = core.run_impl_workers('dispatchprops_worker', cases)[0]
    lines, idx = [], []
    for i, (c, o) in enumerate(zip(cases, obs)):
        if isinstance(o, dict) and '_harness_exception' in o:
            rep.broken('harness exception on implementation side', {'case': c, 'obs': o})
            continue
        if c['lab'] == 'methods':
            lines.append('methodslab ' + sexp.dumps([sexp.some(c['methods']), c['probes']]))
            idx.append(i)
        elif o.get('construct') == 'ok':
            lines.append('dispatchlab ' + sexp.dumps(to_model(c, o)))
            idx.append(i)
    model_out = None
    if b.driver_ok:
        try:
            model_out = core.run_model(lines)
            # the same tables routed END TO END by the model: the match bits come from Model/Pattern + Model/Match
            # (parse_pattern, match_path) instead of BoundRoute.match_path
            full_lines = [l.replace('dispatchlab ', 'dispatchfull ', 1) for l in lines if l.startswith('dispatchlab ')]
            full_idx = [i for l, i in zip(lines, idx) if l.startswith('dispatchlab ')]
            full_out = core.run_model(full_lines)
            nfull = 0
            for i, fl in zip(full_idx, full_out):
                if fl != model_out[idx.index(i)]:
                    nfull += 1
                    if nfull <= 3:
                        a, b2 = sexp.loads(fl), sexp.loads(model_out[idx.index(i)])
                        k = next((k for k in range(min(len(a), len(b2))) if a[k] != b2[k]), 0)
                        rep.broken('correspondence dispatchfull: request %s: routed from the declared patterns by the model alone: %s; '
                                   'with the match bits of BoundRoute.match_path: %s' % (cases[i]['requests'][k][:2], a[k], b2[k]),
                                   {'case': cases[i]})
                else:
                    rep.count('routed_end_to_end_by_model')
        except Exception as e:  # noqa
            rep.broken('model dispatchlab is not executable: %s' % e)
    else:
        rep.broken('model dispatchlab is not executable (extraction or driver build failed)')
    pos = dict((i, n) for n, i in enumerate(idx))
    ndiff = 0
    for i, (c, o) in enumerate(zip(cases, obs)):
        if isinstance(o, dict) and '_harness_exception' in o:
            continue
        if c['lab'] == 'methods':
            if o[0] == 'raise' and o[1] != 'InvalidMethod':
                rep.violation('Route(methods=%r) raised %s' % (c['methods'], o[1]),
                              {'case': c, 'impl_observation': o, 'signature': 'methods-raise'})
            if o[0] == 'ok':
                ms = norm_methods(c['methods'])
                want = [True if ms is None else (p.upper() in ms) for p in c['probes']]
                if o[1] != want:
                    rep.violation('Route(methods=%r) admits %s of %s' % (c['methods'], o[1], c['probes']),
                                  {'case': c, 'impl_observation': o, 'signature': 'methods-admit'})
            if model_out is not None:
                got = model_out[pos[i]]
                want = sexp.dumps(['raise', o[1]] if o[0] == 'raise' else ['ok', o[1]])
                if got != want:
                    ndiff += 1
                    if ndiff <= 5:
                        rep.broken('correspondence methodslab: model %s, implementation %s' % (got, want), {'case': c})
                else:
                    rep.traces += 1
            rep.count('methods.' + o[0])
            rep.case(json.dumps(c, sort_keys=True), nontrivial=bool(c['methods']))
            continue
        v = oracle(prop, c, o)
        if v:
            rep.violation(v[0], {'case': c, 'impl_observation': o, 'signature': v[1], 'lab': 'dispatchlab'})
        if o.get('construct') != 'ok':
            rep.count('construct.' + str(o.get('construct')))
            continue
        if model_out is not None:
            try:
                got = canon_model(c, o, model_out[pos[i]])
            except Exception as e:  # noqa
                got = 'unreadable model output %s: %s' % (model_out[pos[i]][:200], e)
            want = [r['result'] for r in o['requests']]
            if got != want:
                ndiff += 1
                if ndiff <= 5:
                    k = next((n for n in range(min(len(got), len(want))) if got[n] != want[n]), 0) if isinstance(got, list) else 0
                    rep.broken('correspondence dispatchlab: request %d %s: model %s, implementation %s' % (
                        k, c['requests'][k] if k < len(c['requests']) else None,
                        got[k] if isinstance(got, list) and k < len(got) else got, want[k] if k < len(want) else None),
                        {'case': c})
            else:
                rep.traces += 1
        kinds = set(r['result'][0] for r in o['requests'])
        for kd in kinds:
            rep.count('result.' + kd)
        for r in o['requests']:
            if r['result'][0] == 'err':
                rep.count('status.%s' % r['result'][2])
        rep.count('routes.%d' % len(c['routes']))
        rep.case(json.dumps(c, sort_keys=True), nontrivial=(len(c['routes']) >= 2))
    rep.samples = cases[-2:]


def replay(prop, rep, b, path):
    j = json.load(open(path))
    run(prop, rep, b, 'quick', 0, only_cases=[j['case']])
