"""C13 - wsgilab: (A) WSGI wrapper stacks vs Model/Wsgi.wrapper_sequence, (B) the WSGI protocol of every
response kind decided by the extracted, proved monitor (+ wsgiref.validate, + open-file tracking),
(C) RerouteWSGI hands over the very environ and relays the target's answer verbatim."""
import json
import os
import random
import re

from harness import core, sexp

_SEQ = []
KINDS = ['ok', 'stream', 'ctx', 'static', 'static304', 'redirect', 'slashredirect_ctl', 'reroute_rewrite', 'reroute_raise_rewrite',
         'notfound', 'wrongmethod', 'boom', 'boombraces', 'ret400braces',
         'debugboom', 'meta', 'gzip', 'cache',
         'empty', 'ret403', 'reroute', 'reroute_raise', 'unicode_header', 'ret403msg', 'raise404msg', 'raise409nl',
         'gzip_static', 'gzip_static304', 'gzip_stream', 'cache_static', 'reroute_failing', 'reroute_raise_failing']
METHODS = ['GET', 'HEAD', 'POST', 'OPTIONS']


# ------------------------------------------------------------------ (A) wrapper stacks
def build_stack_app(case):
    from clastic import Application, Response, SubApplication
    from clastic.middleware import Middleware
    from clastic.errors import ErrorHandler
    classes = {}

    def mw(spec):
        t = spec['type']
        if t not in classes:
            body = 'class W%d(Middleware):\n    unique = %r\n    def __init__(self, inst):\n        self.inst = inst\n' % (t, bool(spec['unique']))
            if spec['wrapper']:
                body += ('    def wsgi_wrapper(self, inner):\n        inst = self.inst\n'
                         '        def wrapped(environ, start_response):\n            _SEQ.append(inst)\n'
                         '            return inner(environ, start_response)\n        return wrapped\n')
            ns = {}
            exec(body, {'Middleware': Middleware, '_SEQ': _SEQ}, ns)
            classes[t] = ns['W%d' % t]
        return classes[t](spec['inst'])
    handler = None
    if case['handler_wrapper']:
        class H(ErrorHandler):
            @staticmethod
            def wsgi_wrapper(inner):
                def wrapped(environ, start_response):
                    _SEQ.append(None)
                    return inner(environ, start_response)
                return wrapped
        handler = H()

    def ep():
        return Response('x')

    def mk_app(level):
        routes = []
        for r in level['routes']:
            if 'sub' in r:
                routes.append(SubApplication(r['prefix'], mk_app(r['sub'])))
            else:
                routes.append(__import__('clastic').Route(r['pattern'], ep, middlewares=[mw(m) for m in r['mws']]))
        kw = {'error_handler': handler} if (level.get('top') and handler is not None) else {}
        return Application(routes, middlewares=[mw(m) for m in level['mws']], **kw)
    app = mk_app(case['app'])
    # the wrapper stack is put together when the application is constructed: from what is bound at that moment
    app._verif_bound0 = [list(br.middlewares) for br in [app._null_route] + list(app.routes)]
    for r in case.get('late') or []:
        # the application is complete; later a route (or a sub-application) with middlewares of its own is added
        if 'sub' in r:
            app.add(SubApplication(r['prefix'], mk_app(r['sub'])))
        else:
            app.add(__import__('clastic').Route(r['pattern'], ep, middlewares=[mw(m) for m in r['mws']]))
    if case.get('late_handler'):
        # the operator swaps the error handler of the finished application (public API); the new one has no WSGI wrapper
        app.set_error_handler(ErrorHandler())
    return app


def impl_stack(case):
    from harness import wsgi
    try:
        app = build_stack_app(case)
    except Exception as e:
        return {'construct': type(e).__name__}
    out = {'construct': 'ok', 'bound': [[[m.inst, case['types'][str(m.inst)], bool(getattr(m, 'wsgi_wrapper', None))] for m in mws]
                                        for mws in app._verif_bound0], 'seqs': []}
    for path in case['paths']:
        del _SEQ[:]
        r = wsgi.get(app, path)
        out['seqs'].append({'seq': list(_SEQ), 'status': r.code})
    return out


def oracle_stack(case, obs):
    if obs['construct'] != 'ok':
        return None
    top = case['app']['mws']
    want, seen = [], set()
    for m in top:
        if m['type'] in seen:
            continue
        seen.add(m['type'])
        if m['wrapper']:
            want.append(m['inst'])
    for o in obs['seqs']:
        seq = [x for x in o['seq'] if x is not None]
        types = [case['types'][str(i)] for i in seq]
        if len(types) != len(set(types)):
            return ('a middleware type contributed its WSGI wrapper more than once: instances %s' % seq, 'wrapper-twice')
        if seq[:len(want)] != want:
            return ('wrappers ran in order %s; the application-level middlewares demand %s first (list order, first outermost)' % (seq, want),
                    'wrapper-order')
        if case['handler_wrapper'] and (not o['seq'] or o['seq'][-1] is not None):
            return ('the error handler\'s wrapper is not innermost: %s' % o['seq'], 'handler-wrapper')
    return None


# ------------------------------------------------------------------ (B) protocol traces
# what the reroute target answers: (status line, header list, body chunks) - all conforming, all of a kind that a
# re-serialising relay would "correct" (relative Location, validators on 304, Content-Length on 204, repeated headers,
# custom reason phrase)
TARGETS = {
    'plain203': ('203 Non-Authoritative Information', [('Content-Type', 'text/plain'), ('X-Target', 'yes')], [b'from ', b'target']),
    'rel_redirect': ('302 Found', [('Location', '../elsewhere?x=1'), ('Content-Type', 'text/plain'), ('X-Target', 'yes')], [b'moved']),
    'notmod': ('304 Not Modified', [('Last-Modified', 'Fri, 14 Jul 2017 02:40:00 GMT'), ('ETag', '"abc"'), ('X-Target', 'yes')], []),
    'nocontent': ('204 No Content', [('Content-Length', '0'), ('X-Target', 'yes')], []),
    'repeated': ('200 Fine By Me', [('Set-Cookie', 'a=1'), ('Set-Cookie', 'b=2'), ('x-lower', 'v'), ('Content-Type', 'text/plain'),
                                   ('X-Target', 'yes')], [b'', b'a', b'', b'bc']),
}


def build_kind_app(kind, tmpdir, target_kind='plain203'):
    from clastic import Application, Response, redirect, POST
    from clastic.application import RerouteWSGI
    from clastic.errors import Forbidden
    from clastic.meta import MetaApplication
    from clastic.middleware import GzipMiddleware, HTTPCacheMiddleware
    from clastic.render import render_basic
    from clastic.static import StaticApplication

    t_status, t_headers, t_body = TARGETS.get(target_kind, TARGETS['plain203'])

    def target(environ, start_response):
        start_response(t_status, list(t_headers))
        _SEQ.append(('target', id(environ), sorted((k, repr(v)) for k, v in environ.items())))
        return [] if environ['REQUEST_METHOD'] == 'HEAD' else list(t_body)      # the target itself conforms
    if kind.endswith('_failing'):
        # a faulty target: it starts its response and then breaks; relaying means the server sees exactly that
        def target(environ, start_response):
            start_response('200 OK', [('Content-Type', 'text/plain'), ('X-Target', 'yes')])
            _SEQ.append(('target', id(environ), sorted((k, repr(v)) for k, v in environ.items())))
            raise RuntimeError('the target broke after start_response')
    if target_kind == 'clastic_app':
        # the target is itself a clastic Application whose answer depends on its own WSGI layer (a middleware's wsgi_wrapper):
        # "the target WSGI application" is the callable, wrappers included
        from clastic.middleware import Middleware

        class Served(Middleware):
            def wsgi_wrapper(self, inner):
                def wrapped(environ, start_response):
                    _SEQ.append(('target', id(environ), sorted((k, repr(v)) for k, v in environ.items())))

                    def sr(status, headers, exc_info=None):
                        return start_response(status, list(headers) + [('X-Served-By', 'target-wrapper')])
                    return inner(environ, sr)
                return wrapped
        target = Application([('/<p*>', lambda p: Response('target application saw ' + '/'.join(p), mimetype='text/plain',
                                                           headers={'X-Target': 'yes'}))], middlewares=[Served()])

    def boom():
        raise ValueError('boom')

    def reroute_raise():
        raise RerouteWSGI(target)

    def boombraces():
        raise KeyError({'user': 'x', 'fmt': '{0} {name!r} }{'})

    def ret403msg():
        # the application words its own error (message/detail are free text: typographic dash, ellipsis, CJK)
        return Forbidden(message=u'Zugriff verweigert \u2014 bitte anmelden\u2026', detail=u'\u4e0d\u5141\u8bb8')

    def raise404msg():
        from clastic.errors import NotFound
        raise NotFound(message=u'\u2018nothing\u2019 here \u2192 try /ok')

    def raise409nl():
        from clastic.errors import Conflict
        raise Conflict(message='first line\nsecond line\r\nthird', detail='a\nb')

    def ret400braces():
        from clastic.errors import BadRequest
        return BadRequest('expected {"name": ...} or {0}, got }{')
    mws = [GzipMiddleware()] if kind.startswith('gzip') else [HTTPCacheMiddleware()] if kind.startswith('cache') else []
    routes = [('/ok', lambda: Response(b'hello world ' * 200, mimetype='text/plain')),
              ('/stream', lambda: Response((b'c%d' % i for i in range(5)), mimetype='text/plain')),
              ('/ctx', lambda: {'a': 1}, render_basic), ('/static', StaticApplication(tmpdir)), ('/redirect', lambda: redirect('/ok')),
              POST('/postonly', lambda: Response('p')), ('/boom', boom), ('/meta', MetaApplication()),
              ('/empty', lambda: Response(b'', status=204)), ('/ret403', lambda: Forbidden()), ('/reroute', RerouteWSGI(target)),
              ('/reroute_raise', reroute_raise), ('/boombraces', boombraces), ('/ret400braces', ret400braces),
              ('/files/<name>/', lambda name: Response('file ' + name)), ('/rr/<p*>', RerouteWSGI(target)),
              ('/rrr/<p*>', lambda p: reroute_raise()),
              ('/unicode_header', lambda: Response('x', headers={'X-Thing': 'caf\xe9'})),
              ('/ret403msg', ret403msg), ('/raise404msg', raise404msg), ('/raise409nl', raise409nl)]
    app = Application(routes, middlewares=mws, debug=(kind == 'debugboom'),
                      slash_mode='rewrite' if kind.endswith('_rewrite') else 'redirect')
    app._verif_target = target
    return app


def record(app, env, head, events=None, problems=None):
    """-> (events, problems): the (environ, start_response) interaction of one request (the lists are filled in place, so
    that what happened before an escaping exception is not lost)"""
    events = [] if events is None else events
    problems = [] if problems is None else problems

    def start_response(status, headers, exc_info=None):
        so = isinstance(status, str) and re.fullmatch(r'\d{3} [^\x00-\x1f\x7f]+', status) is not None
        try:
            if so:
                status.encode('latin-1')          # PEP 3333: native strings whose characters are all bytes
        except UnicodeEncodeError:
            so = False
        ho = isinstance(headers, list) and all(isinstance(h, tuple) and len(h) == 2 and isinstance(h[0], str) and isinstance(h[1], str)
                                               and not re.search(r'[\x00-\x1f\x7f]', h[0] + h[1]) for h in headers)
        try:
            if ho:
                for k, v in headers:
                    v.encode('latin-1')
        except UnicodeEncodeError:
            ho = False
        events.append(['start', bool(so), bool(ho)])
        return lambda b: problems.append('write() callable used')
    it = app(env, start_response)
    try:
        for chunk in it:
            events.append(['chunk', len(chunk) if hasattr(chunk, '__len__') else 0, isinstance(chunk, bytes)])
    finally:
        if hasattr(it, 'close'):
            it.close()
        events.append('close')
    return events, problems


def impl_kind(case):
    import tempfile
    import shutil
    import wsgiref.validate
    import clastic.static as st
    from harness import wsgi
    from werkzeug.http import http_date
    kind, method = case['kind'], case['method']
    tmp = tempfile.mkdtemp(prefix='clastic-c13-')
    opened = []
    orig_open = getattr(st, 'open', None)

    def tracking_open(*a, **kw):
        f = open(*a, **kw)
        opened.append(f)
        return f
    st.open = tracking_open
    try:
        with open(os.path.join(tmp, 'file.txt'), 'wb') as f:
            f.write(b'static content ' * 100)
        os.utime(os.path.join(tmp, 'file.txt'), (1500000000, 1500000000))
        app = build_kind_app(kind, tmp, case.get('target', 'plain203'))
        path = {'ok': '/ok', 'stream': '/stream', 'ctx': '/ctx', 'static': '/static/file.txt', 'static304': '/static/file.txt',
                'redirect': '/redirect', 'notfound': '/nope', 'wrongmethod': '/postonly', 'boom': '/boom', 'boombraces': '/boombraces', 'ret400braces': '/ret400braces', 'debugboom': '/boom',
                'meta': '/meta/', 'gzip': '/ok', 'cache': '/ok', 'empty': '/empty', 'ret403': '/ret403', 'reroute': '/reroute',
                'reroute_raise': '/reroute_raise', 'unicode_header': '/unicode_header',
                'ret403msg': '/ret403msg', 'raise404msg': '/raise404msg', 'raise409nl': '/raise409nl',
                # file-backed and streamed responses THROUGH the body-processing middlewares
                'reroute_failing': '/reroute', 'reroute_raise_failing': '/reroute_raise',
                'gzip_static': '/static/file.txt', 'gzip_static304': '/static/file.txt', 'gzip_stream': '/stream', 'cache_static': '/static/file.txt',
                # a slash redirect whose path holds control characters (percent-decoded by the server): still a valid header value
                'slashredirect_ctl': '/files/a\x01b\x1b[31m',
                # a rewrite-mode application reroutes a path with doubled separators: the environ goes over untouched
                'reroute_rewrite': '/rr//a///b', 'reroute_raise_rewrite': '/rrr//a///b'}[kind]
        headers = dict(case.get('headers') or {})
        if kind in ('static304', 'gzip_static304'):
            headers['If-Modified-Since'] = http_date(1500000000)
        if kind.startswith('gzip'):
            headers['Accept-Encoding'] = 'gzip'
        if kind == 'wrongmethod' and method == 'POST':
            method = 'PUT'
        env = wsgi.environ(path, method=method, headers=headers)
        del _SEQ[:]
        exc = None
        events, problems = [], []
        try:
            record(app, env, method == 'HEAD', events, problems)
        except Exception as e:
            exc = '%s: %s' % (type(e).__name__, e)
        still_open = [f.name for f in opened if not f.closed]
        target_calls = [x for x in _SEQ if isinstance(x, tuple) and x[0] == 'target']
        rec = {'events': events, 'problems': problems, 'exc': exc, 'still_open': still_open, 'n_opened': len(opened)}
        if kind.startswith('reroute') and exc is None:
            direct = None
            if case.get('target') == 'clastic_app':
                # what the target answers when a server calls it with the same request
                envd = wsgi.environ(path, method=method, headers=headers)
                envd['custom.key'] = 'kept'
                rd = wsgi.call(app._verif_target, envd)
                direct = {'status': rd.status, 'headers': rd.headers, 'body': rd.body.decode('latin-1')}
            env2 = wsgi.environ(path, method=method, headers=headers)
            env2['custom.key'] = 'kept'
            orig_items = sorted((k, repr(v)) for k, v in env2.items())
            del _SEQ[:]
            r = wsgi.call(app, env2)
            t = [x for x in _SEQ if isinstance(x, tuple) and x[0] == 'target']
            rec['reroute'] = {'status': r.status, 'headers': r.headers, 'body': r.body.decode('latin-1'), 'calls': len(t),
                              'same_environ': bool(t) and t[0][1] == id(env2), 'direct': direct,
                              'items_intact': bool(t) and all(item in t[0][2] for item in orig_items)}
        # the standard library's validator on a fresh request (its own assertion messages)
        try:
            env3 = wsgi.environ(path, method=method, headers=headers)
            env3['wsgi.errors'] = __import__('io').StringIO()
            v = wsgiref.validate.validator(app)
            sr = {}

            def start_response(status, hdrs, exc_info=None):
                sr['status'] = status
                return lambda b: None
            it = v(env3, start_response)
            for _ in it:
                pass
            it.close()
            rec['validator'] = 'ok'
        except AssertionError as e:
            rec['validator'] = 'AssertionError: %s' % e
        except Exception as e:
            rec['validator'] = '%s: %s' % (type(e).__name__, e)
        return rec
    finally:
        if orig_open is None:
            del st.open
        else:
            st.open = orig_open
        for f in opened:
            try:
                f.close()
            except Exception:
                pass
        shutil.rmtree(tmp, ignore_errors=True)


def impl(case):
    return impl_stack(case) if case['lab'] == 'stack' else impl_kind(case)


# ------------------------------------------------------------------ generation
def gen_stack(rng):
    inst = [0]
    types = {}

    def mws(n):
        out = []
        for _ in range(n):
            inst[0] += 1
            t = rng.choice([0, 1, 2, 3])
            spec = {'inst': inst[0], 'type': t, 'unique': True, 'wrapper': t != 3 or rng.random() < 0.3}
            spec['wrapper'] = {0: True, 1: True, 2: rng.random() < 0.7, 3: False}[t] if t != 2 else True
            types[str(inst[0])] = t
            out.append(spec)
        return out

    def level(depth, top=False):
        routes = []
        for k in range(rng.choice([0, 1, 2, 3])):
            if depth > 0 and rng.random() < 0.4:
                routes.append({'prefix': '/s%d%d' % (depth, k), 'sub': level(depth - 1)})
            else:
                routes.append({'pattern': '/r%d%d' % (depth, k), 'mws': mws(rng.choice([0, 0, 1, 2]))})
        ms = mws(rng.choice([0, 1, 2, 3]))
        # within one list a type appears at most once (duplicates inside one list: see O20; a separate stream below)
        seen, uniq = set(), []
        for m in ms:
            if m['type'] not in seen or rng.random() < 0.15:
                uniq.append(m)
            seen.add(m['type'])
        return {'mws': uniq, 'routes': routes, 'top': top}
    app = level(2, True)
    late = []
    if rng.random() < 0.4:
        for k in range(rng.choice([1, 2])):
            if rng.random() < 0.3:
                late.append({'prefix': '/late%d' % k, 'sub': level(1)})
            else:
                late.append({'pattern': '/late%d' % k, 'mws': mws(rng.choice([1, 1, 2]))})
    return {'lab': 'stack', 'app': app, 'types': types, 'handler_wrapper': rng.random() < 0.3, 'late': late, 'late_handler': rng.random() < 0.3,
            'paths': ['/', '/r20', '/s20/r10', '/nope', '/late0']}


def run(rep, b, tier, seed, only_cases=None):
    rep.shrink_module = None
    rng = random.Random(seed * 256203221 + 13)
    corpus = [c['case'] if 'case' in c else c for c in core.load_corpus('C13')]
    if only_cases is not None:
        cases = list(only_cases)
    else:
        cases = corpus + [gen_stack(rng) for _ in range(300 if tier == 'quick' else 3000)]
        hdrsets = [None, {'Accept': 'text/html'}, {'Accept': 'application/json', 'X-Custom': 'v'}]
        for kind in KINDS:
            for method in METHODS:
                for h in (hdrsets if tier != 'quick' else hdrsets[:2]):
                    cases.append({'lab': 'kind', 'kind': kind, 'method': method, 'headers': h})
        for kind in ('reroute', 'reroute_raise'):
            for tk in sorted(TARGETS) + ['clastic_app']:
                for method in METHODS:
                    cases.append({'lab': 'kind', 'kind': kind, 'method': method, 'headers': None, 'target': tk})
    rep.rule = ('wsgilab: (A) random application trees to depth 2 with application-, sub-application- and route-level middlewares over 4 '
                'types (some with wsgi_wrapper, duplicates of a type inside and across lists), optional error-handler wrapper; the order '
                'in which a request passes the wrappers vs Model/Wsgi.wrapper_sequence. (B) %d response kinds (Response, streamed, '
                'rendered context, static file, 304, redirect, 404, 405, 500, debug page, meta page, gzip- and cache-processed, 204, '
                'returned HTTPException, RerouteWSGI as endpoint and raised, non-ASCII header) x %d methods x header sets: the recorded '
                '(start_response, chunks, close) trace is decided by the extracted PROVED monitor, files opened under clastic.static '
                'must be closed after close(), and wsgiref.validate runs on a fresh request. (C) RerouteWSGI (as endpoint and raised) to 5 target answers that a re-serialising relay would rewrite (relative Location, validators on 304, Content-Length on 204, repeated and lower-case headers, custom reason phrase, empty chunks): same environ object, all '
                'entries intact, status/headers/body relayed verbatim. non-trivial = stacks with >= 2 wrappers / non-200 kinds.'
                % (len(KINDS), len(METHODS)))
    rep.assumptions = ["werkzeug BaseResponse.__call__/FileWrapper/get_app_iter produce the events (modelled, not verified): that ALL traces conform is not a theorem",
                       'wsgiref.validate forbids a Content-Type header on 304/204, which neither PEP 3333 nor the property demands: that one complaint is recorded, not counted',
                       'O20: _get_all_middlewares de-duplicates wrappers by type even within one list']
    obs = core.run_impl_workers('c13', cases)[0]
    lines, index = [], []
    for i, (c, o) in enumerate(zip(cases, obs)):
        if isinstance(o, dict) and '_harness_exception' in o:
            rep.broken('harness exception on implementation side', {'case': c, 'obs': o})
            continue
        if c['lab'] == 'stack':
            if o['construct'] == 'ok':
                lines.append('wsgistack ' + sexp.dumps([[[[m[0], m[1], bool(m[2])] for m in br] for br in o['bound']], bool(c['handler_wrapper'])]))
                index.append(i)
        elif o['exc'] is None:
            lines.append('wsgimonitor ' + sexp.dumps([c['method'] == 'HEAD', o['events']]))
            index.append(i)
    model_out = None
    if b.driver_ok:
        try:
            model_out = core.run_model(lines)
        except Exception as e:  # noqa
            rep.broken('model wsgilab is not executable: %s' % e)
    else:
        rep.broken('model wsgilab is not executable (extraction or driver build failed)')
    ndiff = 0
    verdicts = {}
    if model_out is not None:
        for i, line in zip(index, model_out):
            c, o = cases[i], obs[i]
            if c['lab'] == 'stack':
                t = sexp.loads(line)
                want = [None if x == b'None' else int(x[0]) for x in t]
                for s in o['seqs']:
                    if s['seq'] != want:
                        ndiff += 1
                        if ndiff <= 5:
                            rep.broken('correspondence wsgistack: wrappers ran %s, model %s' % (s['seq'], want), {'case': c})
                        break
                else:
                    rep.traces += 1
            else:
                verdicts[i] = (line == 'T')
                rep.traces += 1
    for i, (c, o) in enumerate(zip(cases, obs)):
        if isinstance(o, dict) and '_harness_exception' in o:
            continue
        if c['lab'] == 'stack':
            v = oracle_stack(c, o)
            if v:
                rep.violation(v[0], {'case': c, 'signature': v[1], 'lab': 'wsgistack'})
            nw = max([len(s['seq']) for s in o.get('seqs', [])] or [0])
            rep.count('stack.wrappers.%d' % min(nw, 4))
            rep.case(json.dumps(c, sort_keys=True), nontrivial=nw >= 2)
            continue
        what = '%s %s (%s)' % (c['method'], c['kind'], c.get('headers'))
        if c['kind'].endswith('_failing'):
            # the target starts its response and breaks: the server must see exactly that - one start_response, its exception
            nstart = sum(1 for e in o['events'] if isinstance(e, list) and e[0] == 'start')
            if nstart != 1 or not (o['exc'] or '').startswith('RuntimeError: the target broke'):
                rep.violation('%s: the target called start_response once and raised; the server saw %d start_response call(s) and %s'
                              % (what, nstart, o['exc'] or 'no exception'), {'case': c, 'signature': 'reroute-relay'})
            rep.count('kind.' + c['kind'])
            rep.case(json.dumps(c, sort_keys=True), nontrivial=True)
            continue
        if o['exc'] and not (c['kind'] in ('boom',) and False):
            rep.violation('%s: %s escaped from the WSGI callable' % (what, o['exc']), {'case': c, 'signature': 'escape'})
        elif verdicts.get(i) is False:
            rep.violation('%s: the WSGI interaction %s violates the protocol (proved monitor)' % (what, o['events'][:12]),
                          {'case': c, 'signature': 'protocol', 'events': o['events']})
        if o.get('still_open'):
            rep.violation('%s: files still open after the response iterable was closed: %s' % (what, o['still_open']),
                          {'case': c, 'signature': 'file-leak'})
        if o.get('problems'):
            rep.violation('%s: %s' % (what, o['problems']), {'case': c, 'signature': 'write-callable'})
        val = o.get('validator')
        if val and val != 'ok':
            if 'Content-Type' in val and c['kind'] in ('static304', 'empty', 'gzip_static304'):
                rep.count('validator.content_type_on_%s' % c['kind'])
            else:
                rep.violation('%s: wsgiref.validate: %s' % (what, val), {'case': c, 'signature': 'validator'})
        rr = o.get('reroute')
        if rr is not None:
            if rr['calls'] != 1 or not rr['same_environ'] or not rr['items_intact']:
                rep.violation('%s: the target was called %d times, same environ object: %s, all entries intact: %s'
                              % (what, rr['calls'], rr['same_environ'], rr['items_intact']), {'case': c, 'signature': 'reroute-environ'})
            elif rr.get('direct') is not None:
                d = rr['direct']
                if rr['status'] != d['status'] or [list(h) for h in rr['headers']] != [list(h) for h in d['headers']] \
                        or rr['body'] != d['body']:
                    rep.violation('%s: the target (a clastic Application with its own WSGI wrapper) answers %s %s %r when called '
                                  'directly, the reroute relayed %s %s %r' % (what, d['status'], d['headers'], d['body'], rr['status'],
                                                                              rr['headers'], rr['body']),
                                  {'case': c, 'signature': 'reroute-relay'})
            elif rr['status'] != TARGETS[c.get('target', 'plain203')][0] \
                    or [list(h) for h in rr['headers']] != [list(h) for h in TARGETS[c.get('target', 'plain203')][1]] \
                    or (c['method'] != 'HEAD' and rr['body'] != b''.join(TARGETS[c.get('target', 'plain203')][2]).decode('latin-1')):
                rep.violation('%s: the target\'s answer was not relayed verbatim: %s %s %r' % (what, rr['status'], rr['headers'], rr['body']),
                              {'case': c, 'signature': 'reroute-relay'})
        rep.count('kind.' + c['kind'])
        rep.case(json.dumps(c, sort_keys=True), nontrivial=c['kind'] not in ('ok',))
    rep.samples = [cases[0], cases[-1]] if cases else []


def shrink(case):
    return case


def replay(rep, b, path):
    j = json.load(open(path))
    run(rep, b, 'quick', 0, only_cases=[j['case']])
