from harness.props import dispatchprops


def run(rep, b, tier, seed):
    dispatchprops.run('C08', rep, b, tier, seed)


def replay(rep, b, path):
    dispatchprops.replay('C08', rep, b, path)
