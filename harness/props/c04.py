from harness.props import chainprops


def run(rep, b, tier, seed):
    chainprops.run('C04', rep, b, tier, seed)


def replay(rep, b, path):
    chainprops.replay('C04', rep, b, path)
