"""Entry point: run.py <Cnn> [--tier quick|thorough] [--replay file]"""
import argparse
import importlib
import os
import sys

ROOT = os.path.dirname(os.path.dirname(os.path.abspath(__file__)))
sys.path.insert(0, ROOT)
from harness import core  # noqa


def main():
    ap = argparse.ArgumentParser()
    ap.add_argument('prop')
    ap.add_argument('--tier', default=os.environ.get('VERIF_TIER', 'quick'))
    ap.add_argument('--replay')
    a = ap.parse_args()
    seed = int(os.environ.get('VERIF_SEED', '0') or 0)
    tier = a.tier if a.tier in ('quick', 'thorough') else 'quick'
    mod = importlib.import_module('harness.props.' + a.prop.lower())
    rep = core.Report(a.prop, tier, seed)
    b = core.build(a.prop)
    for w in b.broken():
        rep.broken(w)
    checker = ('cd /verif/coq && make -k -j16 && coqc -Q theories ClasticV theories/Props/%s.v '
               '(parsing every Print Assumptions answer)' % a.prop)
    try:
        if a.replay:
            mod.replay(rep, b, a.replay)
        else:
            mod.run(rep, b, tier, seed)
    except Exception:
        # the machinery itself failed on this tree (an oracle or a comparison met something it was not written for):
        # fail closed - the property is no longer shown to hold - and say where
        import traceback
        rep.broken('the check itself raised while exploring this tree (nothing it reports below is complete): '
                   + traceback.format_exc()[-1800:])
    if tier == 'thorough' and b.props_ok:
        ok, axioms, tail = core.coqchk(a.prop)
        rep.extra['coqchk'] = {'ok': ok, 'axioms': axioms}
        checker += ' ; coqchk -silent -o -Q theories ClasticV ClasticV.Props.%s' % a.prop
        if not ok:
            rep.broken('coqchk rejects the compiled property file', tail)
    sys.exit(rep.finish(b, checker))


if __name__ == '__main__':
    main()
