"""Raw WSGI calls (never werkzeug's test client: it rewrites Cookie headers and
parses a leading '//' as a network location)."""
import io
import sys


def environ(path='/', method='GET', query='', headers=None, body=b'', script_name=''):
    env = {
        'REQUEST_METHOD': method, 'SCRIPT_NAME': script_name, 'PATH_INFO': path,
        'QUERY_STRING': query, 'SERVER_NAME': 'localhost', 'SERVER_PORT': '80',
        'SERVER_PROTOCOL': 'HTTP/1.1', 'wsgi.version': (1, 0), 'wsgi.url_scheme': 'http',
        'wsgi.input': io.BytesIO(body), 'wsgi.errors': sys.stderr, 'wsgi.multithread': False,
        'wsgi.multiprocess': False, 'wsgi.run_once': False, 'HTTP_HOST': 'localhost',
        'CONTENT_LENGTH': str(len(body)),
    }
    for k, v in (headers or {}).items():
        env['HTTP_' + k.upper().replace('-', '_')] = v
    return env


class Result(object):
    def __init__(self):
        self.status = None
        self.headers = []
        self.body = b''
        self.exc = None
        self.sr_calls = 0

    @property
    def code(self):
        return int(self.status.split(' ', 1)[0]) if self.status else None

    def header(self, name, default=None):
        for k, v in self.headers:
            if k.lower() == name.lower():
                return v
        return default

    def all_headers(self, name):
        return [v for k, v in self.headers if k.lower() == name.lower()]


def call(app, env):
    """Returns Result; an exception escaping the WSGI callable is captured in .exc"""
    r = Result()

    def start_response(status, headers, exc_info=None):
        r.sr_calls += 1
        r.status = status
        r.headers = list(headers)
        return lambda b: None
    try:
        it = app(env, start_response)
        try:
            r.body = b''.join(it)
        finally:
            if hasattr(it, 'close'):
                it.close()
    except Exception as e:
        r.exc = e
    return r


def get(app, path='/', **kw):
    return call(app, environ(path, **kw))
