"""Generic correspondence step shared by the property modules."""
import json

from harness import core, sexp


def correspond(rep, b, tag, cases, to_model, impl_obs, canon, oracle=None, name=None, max_report=5):
    """cases[i] -> model line (to_model) and implementation observation impl_obs[i];
    canon(case, obs) -> python structure rendered with sexp.dumps and compared with the
    model's output text.  oracle(case, obs) -> None | (what, signature): the property
    restated directly over the implementation's behaviour (model-independent)."""
    name = name or tag
    model_out = None
    if b.driver_ok:
        try:
            model_out = core.run_model('%s %s' % (tag, sexp.dumps(to_model(c))) for c in cases)
        except Exception as e:  # noqa
            rep.broken('model %s is not executable: %s' % (name, e))
    else:
        rep.broken('model %s is not executable (extraction or driver build failed)' % name)
    ndiff = 0
    for i, c in enumerate(cases):
        obs = impl_obs[i]
        if isinstance(obs, dict) and '_harness_exception' in obs:
            rep.broken('harness exception on implementation side (%s)' % name, {'case': c, 'obs': obs})
            continue
        if oracle is not None:
            v = oracle(c, obs)
            if v:
                what, sig = v
                rep.violation(what, {'lab': name, 'case': c, 'impl_observation': obs, 'signature': sig})
        if model_out is not None:
            want = sexp.dumps(canon(c, obs))
            got = model_out[i] if i < len(model_out) else '<missing>'
            if want != got:
                ndiff += 1
                if ndiff <= max_report:
                    rep.broken('correspondence %s: model and implementation differ' % name,
                               {'case': c, 'model': got[:2000], 'impl': want[:2000]})
            else:
                rep.traces += 1
    return ndiff


def ddmin_list(items, fails, max_steps=400):
    """Greedy delta debugging on a list: remove chunks while `fails(items)` stays true."""
    items = list(items)
    n = 2
    steps = 0
    while len(items) >= 1 and steps < max_steps:
        chunk = max(1, len(items) // n)
        removed = False
        i = 0
        while i < len(items) and steps < max_steps:
            cand = items[:i] + items[i + chunk:]
            steps += 1
            if fails(cand):
                items = cand
                removed = True
            else:
                i += chunk
        if not removed:
            if chunk == 1:
                break
            n = min(len(items), n * 2)
        else:
            n = max(2, n - 1)
    return items
