"""Canonical s-expression text, identical to ocaml/driver.ml's printer."""
import re

_BARE = re.compile(rb"^[A-Za-z0-9_\-./:+*?<>=,@%#&;!$~^|\[\]{}']+$")


def atom(x):
    if isinstance(x, bool):
        return b'T' if x else b'F'
    if x is None:
        return b'None'
    if isinstance(x, int):
        return str(x).encode()
    if isinstance(x, str):
        x = x.encode('utf8', 'surrogateescape')
    if not isinstance(x, (bytes, bytearray)):
        raise TypeError('cannot encode %r' % (x,))
    if _BARE.fullmatch(x):        # not match(): '$' also matches before a final newline
        return bytes(x)
    out = bytearray(b'"')
    for c in x:
        if c in (0x22, 0x5c):
            out += b'\\' + bytes([c])
        elif c < 32 or c > 126:
            out += b'\\x%02x' % c
        else:
            out.append(c)
    out += b'"'
    return bytes(out)


def dumps(x):
    """lists/tuples -> (...), everything else -> atom.  Returns str (latin-1 safe ASCII)."""
    return _dumps(x).decode('ascii')


def _dumps(x):
    if isinstance(x, (list, tuple)):
        return b'(' + b' '.join(_dumps(y) for y in x) + b')'
    return atom(x)


def some(x):
    """option encoding used by Sx.eopt/dopt"""
    return 'None' if x is None else [x]


def loads(s):
    """Parse canonical text back to nested lists of bytes atoms."""
    if isinstance(s, str):
        s = s.encode('latin-1')
    pos = 0
    n = len(s)

    def sx():
        nonlocal pos
        while pos < n and s[pos] in b' \t':
            pos += 1
        if pos >= n:
            raise ValueError('eof')
        c = s[pos]
        if c == 0x28:
            pos += 1
            out = []
            while True:
                while pos < n and s[pos] in b' \t':
                    pos += 1
                if pos >= n:
                    raise ValueError('unterminated list')
                if s[pos] == 0x29:
                    pos += 1
                    return out
                out.append(sx())
        if c == 0x22:
            pos += 1
            b = bytearray()
            while True:
                c = s[pos]
                if c == 0x22:
                    pos += 1
                    return bytes(b)
                if c == 0x5c:
                    if s[pos + 1] == 0x78:
                        b.append(int(s[pos + 2:pos + 4], 16))
                        pos += 4
                    else:
                        b.append(s[pos + 1])
                        pos += 2
                else:
                    b.append(c)
                    pos += 1
        st = pos
        while pos < n and s[pos] not in b' ()"':
            pos += 1
        return s[st:pos]
    return sx()
