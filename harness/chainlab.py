"""chainlab: build real clastic Applications from JSON configurations whose
functions have *real* signatures (exec'd def statements), record what every
harness-supplied function receives, and render the same configuration for the
Coq model (Model/ChainIO.v)."""
import json
import random

ALPHA = ['a', 'b', 'c', 'd']
BUILTINS4 = ['request', '_application', '_route', '_dispatch_state']
KINDS = ['plain', 'lambda', 'method', 'callable', 'static', 'classm', 'decorated', 'rewrapped', 'decorated_obj']
EXOTIC = ['endpoint', 'render', 'funcs', 'BaseResponse', 'resp', '__traceback_hide__', 'process_request', 'inner']

# ------------------------------------------------------------------ model side

def sig_sx(s):
    return [s['pos'], s['posonly'], s['kwonly'], s['defaulted']]


def opt_sig_sx(s):
    return 'None' if s is None else [sig_sx(s)]


def mw_sx(m):
    return [m['inst'], m['id'], bool(m['unique']), bool(m['reorderable']),
            opt_sig_sx(m.get('request')), opt_sig_sx(m.get('endpoint')), opt_sig_sx(m.get('render')),
            m['provides'], m['endpoint_provides'], m['render_provides']]


def script_sx(s):
    # ['call', 'pass'] | ['call', ['raise_after', e]] | ['raise', e] | ['early', r]
    return s


def to_model(c):
    app = [c['resources'], [mw_sx(m) for m in c['mws']], c['url'], c['route_resources'],
           [mw_sx(m) for m in c['route_mws']], sig_sx(c['endpoint']['sig']), sig_sx(c['render']['sig'])]
    sc = c.get('scripts') or {}
    scripts = [[[ph, inst, script_sx(s)] for ph, inst, s in sc.get('mw', [])],
               sc.get('ep', ['ctx', 'CTX']), sc.get('rn', ['resp', 'RN'])]
    if c.get('outer'):
        o = c['outer']
        return [app, scripts, [o['resources'], [mw_sx(m) for m in o['mws']], o['prefix_url']]]
    return [app, scripts]


# ------------------------------------------------------------------ implementation side
class Sent(object):
    """sentinel object with a tag; identity is checked against the registry"""
    def __init__(self, tag):
        self.tag = tag

    def __repr__(self):
        return 'Sent(%s)' % self.tag


_D = Sent('<default>')
# context values an endpoint may legitimately return that are falsy / None: a tag of the model, a plain Python value here
FALSY = {'NONE': None, 'ZERO': 0, 'EMPTYSTR': '', 'EMPTYDICT': {}, 'FALSE': False}


def falsy_tag(v):
    for tag, x in FALSY.items():
        if type(v) is type(x) and v == x:
            return tag
    return None


def params_src(sig, leading=()):
    """parameter list source for a signature (plus leading self/cls)"""
    pos = list(leading) + list(sig['pos'])
    npo = sig['posonly'] + (len(leading) if sig['posonly'] else 0)
    parts = []
    for i, p in enumerate(pos):
        parts.append(p + ('=_D' if p in sig['defaulted'] and p not in leading else ''))
        if npo and i == npo - 1:
            parts.append('/')
    if sig['kwonly']:
        parts.append('*')
        for k in sig['kwonly']:
            parts.append(k + ('=_D' if k in sig['defaulted'] else ''))
    return ', '.join(parts)


def dict_src(sig):
    names = list(sig['pos']) + list(sig['kwonly'])
    return 'dict(' + ', '.join('%s=%s' % (n, n) for n in names) + ')'


class Lab(object):
    def __init__(self, cfg):
        self.cfg = cfg
        self.rec = []
        self.cur = {}
        self.seen_lists = []
        self.reg = {}
        self.exc_classes = {}
        sc = cfg.get('scripts') or {}
        self.mw_scripts = dict(((ph, inst), s) for ph, inst, s in sc.get('mw', []))
        self.positional = set(sc.get('positional', []))
        self.ep_script = sc.get('ep', ['ctx', 'CTX'])
        self.rn_script = sc.get('rn', ['resp', 'RN'])

    # ---- canonicalisation of received values
    def canon(self, name, v):
        from werkzeug.wrappers import BaseRequest
        from clastic.application import DispatchState
        from clastic.route import BoundRoute
        if name in self.cfg.get('url_int0', ()) and type(v) is int and v == 0:
            return 'U:' + name            # the converted URL segment of an optional int binding: zero is a value, not absence
        if isinstance(v, Sent):
            ok = self.reg.get(v.tag) is v
            return v.tag if ok else v.tag + '!not-the-registered-object'
        if name == 'context' and falsy_tag(v) is not None:
            return falsy_tag(v)
        if name == 'next' and callable(v):
            return 'NEXT'
        if isinstance(v, BaseRequest):
            return 'B:request' if v.environ is self.cur.get('environ') else 'B:request!other-request'
        app = self.cur.get('app')
        if v is app:
            return 'B:_application'
        if isinstance(v, BoundRoute):
            return 'B:_route' if (v is app._null_route or any(v is r for r in app.routes)) else 'B:_route!foreign'
        if isinstance(v, DispatchState):
            return 'B:_dispatch_state'
        if isinstance(v, list) and name == '_ignored':
            return 'U:_ignored'
        if isinstance(v, list) and all(isinstance(x, str) for x in v):
            if self.cfg.get('pct'):
                v = [x[:-3] if x.endswith('%41') else x for x in v]
            return v[0] if len(v) == 1 else 'LIST:' + ','.join(v)
        if isinstance(v, str):
            if self.cfg.get('pct') and v.endswith('%41'):
                return v[:-3]             # the segment as sent: 'U:a%41'
            return v
        return 'OTHER:' + repr(v)[:40]

    def outcome(self, ret):
        from clastic.errors import HTTPException
        from werkzeug.wrappers import BaseResponse
        if isinstance(ret, HTTPException):
            return ['resp', str(ret.code)]
        if isinstance(ret, BaseResponse):
            return ['resp', ret.get_data(as_text=True)]
        if isinstance(ret, Sent):
            return ['ctx', ret.tag]
        if falsy_tag(ret) is not None:
            return ['ctx', falsy_tag(ret)]
        return ['ctx', 'OTHER:' + repr(ret)[:40]]

    def exc(self, name):
        if name not in self.exc_classes:
            if name.startswith('Http'):
                # a clastic HTTPException (they are Responses too): raised, it must unwind like any other exception
                from clastic import errors
                base = {'409': errors.Conflict, '410': errors.Gone, '418': errors.ImATeapot}[name[4:]]
                self.exc_classes[name] = type(str(name), (base,), {})
            elif name.endswith('T'):
                # an application error that happens to derive from TypeError (a schema error, a coercion error)
                self.exc_classes[name] = type(str(name), (TypeError,), {})
            else:
                self.exc_classes[name] = type(str(name), (Exception,), {})
        return self.exc_classes[name]

    def received(self, kwargs):
        out = sorted([k, self.canon(k, v)] for k, v in kwargs.items() if v is not _D)
        for k, v in kwargs.items():
            if isinstance(v, list) and k != '_ignored' and not any(v is x for x in self.seen_lists):
                self.seen_lists.append(v)
        return out

    # ---- function bodies
    def mw_impl(self, inst, ph, provides, kwargs):
        from werkzeug.wrappers import Response
        fid = ['mw', ph, inst]
        self.rec.append(['enter', fid, self.received(kwargs)])
        script = self.mw_scripts.get((ph, inst), ['call', 'pass'])
        if script[0] == 'raise':
            self.rec.append(['leave', fid, ['exc', script[1]]])
            raise self.exc(script[1])()
        if script[0] == 'early':
            self.rec.append(['leave', fid, ['resp', script[1]]])
            return Response(script[1])
        post = script[1]
        nxt = kwargs['next']
        given = {}
        for n in provides:
            tag = 'P%s%d:%s' % (ph, inst, n)
            s = Sent(tag)
            self.reg[tag] = s
            given[n] = s
        try:
            if inst in self.positional:
                ret = nxt(*[given[n] for n in provides])     # next(a, b): positional, in provides order
            else:
                ret = nxt(**given)
        except Exception as e:
            if isinstance(post, list) and post[0] == 'swallow':
                self.rec.append(['leave', fid, ['resp', post[1]]])
                return Response(post[1])
            self.rec.append(['leave', fid, ['exc', type(e).__name__]])
            raise
        if isinstance(post, list) and post[0] == 'raise_after':
            self.rec.append(['leave', fid, ['exc', post[1]]])
            raise self.exc(post[1])()
        if isinstance(post, list) and post[0] == 'replace':
            self.rec.append(['leave', fid, ['resp', post[1]]])
            return Response(post[1])
        self.rec.append(['leave', fid, self.outcome(ret)])
        return ret

    def ep_impl(self, kwargs):
        from werkzeug.wrappers import Response
        self.rec.append(['enter', 'endpoint', self.received(kwargs)])
        s = self.ep_script
        if s[0] == 'raise':
            self.rec.append(['leave', 'endpoint', ['exc', s[1]]])
            raise self.exc(s[1])()
        if s[0] == 'resp':
            self.rec.append(['leave', 'endpoint', ['resp', s[1]]])
            return Response(s[1])
        if s[1] in FALSY:
            # the endpoint's result is None / 0 / '' / {} / False: a context like any other, the render layers run
            self.rec.append(['leave', 'endpoint', ['ctx', s[1]]])
            return type(FALSY[s[1]])() if FALSY[s[1]] is not None else None
        c = Sent(s[1])
        self.reg[s[1]] = c
        self.rec.append(['leave', 'endpoint', ['ctx', s[1]]])
        return c

    def rn_impl(self, kwargs):
        from werkzeug.wrappers import Response
        self.rec.append(['enter', 'render', self.received(kwargs)])
        s = self.rn_script
        if s[0] == 'raise':
            self.rec.append(['leave', 'render', ['exc', s[1]]])
            raise self.exc(s[1])()
        if s[0] == 'non':
            c = Sent(s[1])
            self.reg[s[1]] = c
            self.rec.append(['leave', 'render', ['ctx', s[1]]])
            return c
        self.rec.append(['leave', 'render', ['resp', s[1]]])
        return Response(s[1])

    # ---- callables with real signatures
    def make_callable(self, sig, kind, impl):
        from clastic.decorators import clastic_decorator
        ns = {'_D': _D, '_impl': impl}
        ps, ds = params_src(sig), dict_src(sig)
        if kind == 'plain':
            exec('def f(%s):\n    return _impl(%s)\n' % (ps, ds), ns)
            return ns['f']
        if kind == 'lambda':
            exec('f = lambda %s: _impl(%s)\n' % (ps, ds), ns)
            return ns['f']
        if kind == 'method':
            exec('class K(object):\n    def m(%s):\n        return _impl(%s)\n' % (params_src(sig, ['self']), ds), ns)
            return ns['K']().m
        if kind == 'callable':
            exec('class K(object):\n    def __call__(%s):\n        return _impl(%s)\n' % (params_src(sig, ['self']), ds), ns)
            return ns['K']()
        if kind == 'static':
            exec('class K(object):\n    @staticmethod\n    def m(%s):\n        return _impl(%s)\n' % (ps, ds), ns)
            return ns['K'].m
        if kind == 'classm':
            exec('class K(object):\n    @classmethod\n    def m(%s):\n        return _impl(%s)\n' % (params_src(sig, ['cls']), ds), ns)
            return ns['K'].m
        if kind == 'rewrapped':
            # a function that clastic has ALREADY inspected (bound in some earlier application) is wrapped
            # afterwards by an ordinary functools.wraps decorator with its own explicit parameter list:
            # the signature that counts is the wrapper's
            import functools
            from clastic import Application
            exec('def g(zz_other, request=None):\n    return None\n', ns)
            try:
                Application([('/<zz_other>', ns['g'], lambda context: None)])
            except Exception:
                pass
            exec('def f(%s):\n    return _impl(%s)\n' % (ps, ds), ns)
            return functools.wraps(ns['g'])(ns['f'])
        if kind == 'decorated_obj':
            # clastic_decorator around a CLASS-based decorator: the wrapper is an object whose declared signature
            # (the _sinter_fb clastic_decorator leaves on it) is the wrapped function's
            class Wrapper(object):
                def __init__(self, fn):
                    self.fn = fn

                def __call__(self, *a, **kw):
                    return self.fn(*a, **kw)
            exec('def f(%s):\n    return _impl(%s)\n' % (ps, ds), ns)
            return clastic_decorator(Wrapper)(ns['f'])
        if kind == 'decorated':
            def deco(fn):
                def wrapper(*a, **kw):
                    return fn(*a, **kw)
                return wrapper
            exec('def f(%s):\n    return _impl(%s)\n' % (ps, ds), ns)
            return clastic_decorator(deco)(ns['f'])
        raise ValueError(kind)

    def make_mw(self, spec, classes):
        """one class per type id (built from the first spec of that id); a later instance whose spec
        differs gets instance-level attributes (functions as plain instance attributes, like
        clastic's own ContextProcessor.render)"""
        from clastic.middleware import Middleware
        key = spec['id']
        if key not in classes:
            lab = self
            base = 'Middleware'
            if spec.get('base') is not None and spec['base'] in classes:
                base = 'Base'             # a middleware type derived from another middleware type of the configuration
            body = ['class %s(%s):' % (spec.get('clsname') or 'MW%d' % key, base),
                    '    unique = %r' % bool(spec['unique']),
                    '    reorderable = %r' % bool(spec['reorderable']),
                    '    provides = %r' % (tuple(spec['provides']),),
                    '    endpoint_provides = %r' % (tuple(spec['endpoint_provides']),),
                    '    render_provides = %r' % (tuple(spec['render_provides']),),
                    '    def __init__(self, inst):',
                    '        self.inst = inst']
            for fname, ph, prov in (('request', 'q', 'provides'), ('endpoint', 'e', 'endpoint_provides'),
                                    ('render', 'r', 'render_provides')):
                sig = spec.get(fname)
                if sig is None:
                    continue
                body.append('    def %s(%s):' % (fname, params_src(sig, ['self'])))
                body.append('        return _lab.mw_impl(self.inst, %r, self.%s, %s)' % (ph, prov, dict_src(sig)))
            ns = {'Middleware': Middleware, '_D': _D, '_lab': lab}
            if base == 'Base':
                ns['Base'] = classes[spec['base']][0]
            exec('\n'.join(body) + '\n', ns)
            classes[key] = (ns[spec.get('clsname') or 'MW%d' % key], spec)
        cls, first = classes[key]
        obj = cls(spec['inst'])
        if first is not spec:
            for a in ('unique', 'reorderable'):
                if bool(spec[a]) != bool(first[a]):
                    setattr(obj, a, bool(spec[a]))
            for a in ('provides', 'endpoint_provides', 'render_provides'):
                if list(spec[a]) != list(first[a]):
                    setattr(obj, a, tuple(spec[a]))
            for fname, ph, prov in (('request', 'q', 'provides'), ('endpoint', 'e', 'endpoint_provides'),
                                    ('render', 'r', 'render_provides')):
                if spec.get(fname) != first.get(fname):
                    sig = spec.get(fname)
                    if sig is None:
                        setattr(obj, fname, None)
                    else:
                        ns = {'_D': _D, '_lab': self, '_obj': obj}
                        exec('def f(%s):\n    return _lab.mw_impl(_obj.inst, %r, _obj.%s, %s)\n'
                             % (params_src(sig), ph, prov, dict_src(sig)), ns)
                        setattr(obj, fname, ns['f'])
        return obj

    # ---- build + run
    def build(self):
        from clastic import Application, Route
        from clastic.errors import ErrorHandler
        cfg = self.cfg
        classes = {}
        try:
            for n in cfg['resources'] + cfg['route_resources']:
                tag = 'R:' + n
                if tag not in self.reg:
                    self.reg[tag] = Sent(tag)
            app_mws = [self.make_mw(m, classes) for m in cfg['mws']]
            route_mws = [self.make_mw(m, classes) for m in cfg['route_mws']]
            ep = self.make_callable(cfg['endpoint']['sig'], cfg['endpoint']['kind'], self.ep_impl)
            rn = self.make_callable(cfg['render']['sig'], cfg['render']['kind'], self.rn_impl)
        except SyntaxError as e:
            return 'HARNESS-SyntaxError:%s' % e
        binds = ''.join('/<%s%s>' % (u, '?int' if u in cfg.get('url_int0', ()) else '+' if u in cfg.get('url_multi', ()) else '')
                        for u in cfg['url'])
        pattern = '/r/k' + binds
        try:
            routes = []
            if cfg.get('decoy'):
                # a route BEFORE the real one that matches the same paths but is passed over (POST only): it binds
                # from the URL a name the real route takes from its route-level resources
                from clastic import POST
                n = cfg['decoy']
                ep2 = self.make_callable(cfg['endpoint']['sig'], 'plain', self.reenter_impl if cfg.get('reenter') else self.decoy_impl)
                rn2 = self.make_callable(cfg['render']['sig'], 'plain', self.decoy_impl)
                dres = dict((x, self.reg['R:' + x]) for x in cfg['route_resources'] if x != n)
                if cfg.get('decoy_extra'):
                    # a resource only THIS sibling route carries: no other route may ever see it
                    dres[cfg['decoy_extra']] = Sent('R:%s!of-the-sibling-route' % cfg['decoy_extra'])
                # 'reenter': the sibling admits the request, serves ANOTHER request of its own on the same application
                # while doing so, and then steps aside with a non-breaking 404: the real route answers the outer request
                routes.append((Route if cfg.get('reenter') else POST)('/<%s>/k%s' % (n, binds), ep2, rn2, middlewares=route_mws, resources=dres))
            via_factory = bool(cfg['render'].get('factory'))
            rr = dict((n, self.reg['R:' + n]) for n in cfg['route_resources'])
            rm = list(route_mws)
            routes.append(Route(pattern, ep, 'render-argument' if via_factory else rn, middlewares=rm, resources=rr))
            if cfg.get('reuse_args'):
                # the caller goes on using the list and the dict it passed (the next route of its section gets more)
                rr.clear()
                rr['zz_later'] = Sent('R:zz_later!of-a-later-route')
                del rm[:]
            factory = (lambda arg: rn) if via_factory else None        # the render function comes out of the render factory
            handler = ErrorHandler(reraise_uncaught=True)
            if cfg.get('outer'):
                o = cfg['outer']
                for n in o['resources']:
                    self.reg.setdefault('R:' + n, Sent('R:' + n))
                outer_mws = [self.make_mw(m, classes) for m in o['mws']]
                inner = Application(routes, resources=dict((n, self.reg['R:' + n]) for n in cfg['resources']),
                                    middlewares=app_mws, render_factory=factory)
                prefix = ''.join('/<%s>' % u for u in o['prefix_url']) or '/pre'
                self.app = Application([(prefix, inner)], resources=dict((n, self.reg['R:' + n]) for n in o['resources']),
                                       middlewares=outer_mws, error_handler=handler)
            else:
                self.app = Application(routes, resources=dict((n, self.reg['R:' + n]) for n in cfg['resources']),
                                       middlewares=app_mws, error_handler=handler, render_factory=factory)
        except Exception as e:
            return type(e).__name__
        if cfg.get('reenter') and cfg.get('decoy'):
            real = self.app.routes[-1]
            orig = real.execute

            def execute(*a, **kw):
                self.rec = self.real_rec          # from here on the functions of the real route are recorded
                return orig(*a, **kw)
            real.execute = execute
        return 'ok'

    def reenter_impl(self, kwargs):
        from harness import wsgi
        from clastic.errors import NotFound
        wsgi.call(self.app, wsgi.environ('/zzz/nomatch'))        # a request inside the request, same application
        raise NotFound(is_breaking=False)

    def decoy_impl(self, kwargs):
        self.rec.append(['enter', 'DECOY-ROUTE-SERVED', self.received(kwargs)])
        raise self.exc('DecoyServed')()

    def request(self, path):
        from harness import wsgi
        self.rec = []
        self.real_rec = self.rec
        if self.cfg.get('reenter') and self.cfg.get('decoy') and path != '/zzz/nomatch':
            self.rec = []                 # what the sibling route's chain records is not the subject
        env = wsgi.environ(path)
        self.cur = {'environ': env, 'app': self.app}
        r = wsgi.call(self.app, env)
        self.rec = self.real_rec
        for v in self.seen_lists:
            v.append('MUTATED-BY-AN-EARLIER-REQUEST')      # a value of one request must never reach another
        self.seen_lists = []
        if r.exc is not None:
            out = ['exc', type(r.exc).__name__]
            detail = str(r.exc)[:200]
        elif r.code >= 400:
            out, detail = ['resp', str(r.code)], None
        else:
            out, detail = ['resp', r.body.decode('utf8', 'replace')], None
        return out, self.rec, detail


def impl(cfg):
    lab = Lab(cfg)
    c = lab.build()
    if c != 'ok':
        return {'construct': c}
    # 'dslash': the client repeats the separator in front of every single-valued bound segment (the route is a leaf:
    # served as is; what a multi binding makes of empty segments is C05's subject, see O3)
    sep = '//' if cfg.get('dslash') else '/'
    pct = '%41' if cfg.get('pct') else ''      # the segment still contains a percent sign after the server's decoding
    route_path = '/r/k' + ''.join(('/' if u in cfg.get('url_multi', ()) else sep) + ('0' if u in cfg.get('url_int0', ()) else 'U:' + u + pct)
                                  for u in cfg['url'])    # a multi binding takes exactly one segment here
    if cfg.get('outer'):
        route_path = (''.join(sep + 'U:%s' % u + pct for u in cfg['outer']['prefix_url']) or '/pre') + route_path
    obs = {'construct': 'ok'}
    for name, path in (('null', '/zzz/nomatch'), ('route', route_path)):
        o1, t1, d1 = lab.request(path)
        o2, t2, d2 = lab.request(path)   # a second request must be served identically (no state carried over)
        obs[name] = {'outcome': o1, 'trace': t1, 'detail': d1,
                     'repeat_same': (o1 == o2 and t1 == t2)}
    return obs


# ------------------------------------------------------------------ comparison helpers
def model_to_py(x):
    """parsed sexp (bytes atoms) -> python lists/str"""
    if isinstance(x, list):
        return [model_to_py(y) for y in x]
    return x.decode('utf8', 'replace')


def canon_model_run(run, drop_final):
    """model run = (outcome (events...)); returns (outcome, trace, framework_errors)"""
    outcome, events = run
    trace, ferr = [], []
    for ev in events:
        if ev[0] in ('argerror', 'unbound'):
            ferr.append(ev)
            continue
        fid = ev[1]
        if isinstance(fid, list):
            fid = [fid[0], fid[1], int(fid[2])]
        if drop_final and fid in ('endpoint', 'render'):
            continue
        if ev[0] == 'enter':
            trace.append(['enter', fid, sorted([k, v] for k, v in ev[2])])
        else:
            trace.append(['leave', fid, ev[2]])
    if outcome[0] == 'ctx':          # non-Response reaches dispatch -> TypeError
        outcome = ['exc', 'TypeError']
    if outcome[0] == 'exc' and outcome[1].startswith('Http'):      # a raised HTTPException is answered with its own status
        outcome = ['resp', outcome[1][4:]]
    return outcome, trace, ferr


# ------------------------------------------------------------------ generation
def gen_sig(rng, first, pool, avail, max_extra=3, allow_posonly=False):
    n = rng.choice([0, 1, 1, 2, 2, max_extra])
    names = []
    for _ in range(n):
        src = avail if (avail and rng.random() < 0.8) else pool
        x = rng.choice(src)
        if x not in names and x not in first:
            names.append(x)
    nk = rng.choice([0, 0, 0, 1]) if names else 0
    kwonly = names[len(names) - nk:] if nk else []
    pos = list(first) + names[:len(names) - nk]
    # defaults: a suffix of the non-first positional params, any subset of kwonly
    ndef = rng.choice([0, 0, 1, 2])
    cand = pos[len(first):]
    defaulted = cand[len(cand) - min(ndef, len(cand)):] if ndef else []
    defaulted += [k for k in kwonly if rng.random() < 0.5]
    posonly = 0
    if allow_posonly and pos and rng.random() < 0.5:
        posonly = rng.randint(1, len(pos))
    return {'pos': pos, 'posonly': posonly, 'kwonly': kwonly, 'defaulted': defaulted}


def gen_config(rng, defect=None, posonly=False, embed=None, valid_base=None):
    """valid_base: optional predicate; when a defect is to be injected, the configuration it is injected into is
    re-drawn (up to 40 times) until the predicate accepts it, so that the defect is the ONLY reason to reject it"""
    if defect and valid_base is not None:
        for _ in range(40):
            base = _gen_config(rng, None, posonly, embed)
            if valid_base(base):
                apply_defect(rng, base, defect)
                d = base.get('decoy')
                if d and (d in base['url'] or d in (base.get('outer') or {}).get('prefix_url', []) or base['route_resources'].count(d) != 1
                          or d in BUILTINS4 + ['context', 'next']):
                    del base['decoy']
                return base
    return _gen_config(rng, defect, posonly, embed)


def _gen_config(rng, defect=None, posonly=False, embed=None):
    pool = ALPHA + ['request', '_route', '_application', '_dispatch_state', 'context', 'e', 'f', '_error']
    url = rng.sample(ALPHA, rng.choice([0, 0, 1, 1, 2]))
    rest = [x for x in ALPHA + ['e', 'f'] if x not in url]
    resources = rng.sample(rest, rng.choice([0, 0, 1, 2]))
    rest = [x for x in rest if x not in resources]
    route_resources = rng.sample(rest, rng.choice([0, 0, 1, 1])) if rest else []
    rest = [x for x in rest if x not in route_resources]
    # optionally the whole application is embedded in an outer one under a prefix (with its own resources,
    # middlewares and URL bindings in the prefix)
    outer = None
    n_outer = 0
    if embed is None:
        embed = rng.random() < 0.35
    if embed:
        o_url = rng.sample(rest, rng.choice([0, 0, 1])) if rest else []
        rest = [x for x in rest if x not in o_url]
        o_res = rng.sample(rest, rng.choice([0, 1, 1])) if rest else []
        rest = [x for x in rest if x not in o_res]
        outer = {'resources': o_res, 'prefix_url': o_url, 'mws': []}
        n_outer = rng.choice([0, 1, 1, 2])
    o_names = (outer['resources'] + outer['prefix_url']) if outer else []
    base = url + resources + route_resources + o_names + BUILTINS4
    app_base = resources + BUILTINS4          # what the null route can see
    outer_base = (outer['resources'] if outer else []) + BUILTINS4
    n_app, n_route = rng.choice([(0, 0), (1, 0), (0, 1), (1, 1), (2, 0), (2, 1), (1, 2), (2, 2)])
    types = {}
    inst = 0
    prov_names = list(rest) + ['g', 'h', 'i']
    rng.shuffle(prov_names)

    def fresh_names(k):
        out = []
        for _ in range(k):
            if prov_names:
                out.append(prov_names.pop())
        return out

    def new_type(tid, is_app):
        has_req = rng.random() < 0.75
        has_ep = rng.random() < 0.3
        has_rn = rng.random() < 0.3
        return {'id': tid, 'unique': rng.random() < 0.8, 'reorderable': rng.random() < 0.8,
                'has': (has_req, has_ep, has_rn),
                'provides': fresh_names(rng.choice([0, 1, 1, 2])) if (has_req or rng.random() < 0.1) else [],
                'endpoint_provides': fresh_names(rng.choice([0, 1])) if has_ep else [],
                'render_provides': fresh_names(rng.choice([0, 1])) if has_rn else []}
    mws_outer, mws_app, mws_route = [], [], []
    for lvl, n, out in (('outer', n_outer, mws_outer), ('app', n_app, mws_app), ('route', n_route, mws_route)):
        for _ in range(n):
            if types and rng.random() < 0.15:
                t = rng.choice(list(types.values()))          # a second instance of an existing type
            else:
                t = new_type(len(types), lvl == 'app')
                types[t['id']] = t
            out.append({'inst': inst, 'type': t, 'level': lvl})
            inst += 1
    # signatures: available names per position (request phase)
    all_mws = mws_outer + mws_app + mws_route
    req_prov_before = []
    acc_req = []
    for m in all_mws:
        req_prov_before.append(list(acc_req))
        acc_req += m['type']['provides']
    req_all = list(acc_req)
    ep_acc, rn_acc = [], []
    for k, m in enumerate(all_mws):
        t = m['type']
        if 'sigs' not in t:
            b = outer_base if m['level'] == 'outer' else (app_base if m['level'] == 'app' else base)
            has_req, has_ep, has_rn = t['has']
            t['sigs'] = {
                'request': gen_sig(rng, ['next'], pool, b + req_prov_before[k], 2, posonly) if has_req else None,
                'endpoint': gen_sig(rng, ['next'], pool, b + req_all + ep_acc, 2, posonly) if has_ep else None,
                'render': gen_sig(rng, ['next'], pool, b + req_all + ['context'] + rn_acc, 2, posonly) if has_rn else None,
            }
        ep_acc += t['endpoint_provides']
        rn_acc += t['render_provides']

    if len(types) >= 2 and rng.random() < 0.2:
        for t in list(types.values())[:2]:
            t['clsname'] = 'Shared'       # two unrelated classes that happen to have one name (two modules' Guard classes)

    def spec(m):
        t = m['type']
        return {'inst': m['inst'], 'id': t['id'], 'unique': t['unique'], 'reorderable': t['reorderable'], 'clsname': t.get('clsname'),
                'request': t['sigs']['request'], 'endpoint': t['sigs']['endpoint'], 'render': t['sigs']['render'],
                'provides': t['provides'], 'endpoint_provides': t['endpoint_provides'],
                'render_provides': t['render_provides']}
    ep_sig = gen_sig(rng, [], pool, base + req_all + ep_acc, 3, posonly)
    rn_first = ['context'] if rng.random() < 0.85 else []
    rn_sig = gen_sig(rng, rn_first, pool, base + req_all + rn_acc, 2, posonly)
    cfg = {'resources': resources, 'route_resources': route_resources, 'url': url,
           'url_multi': [url[-1]] if (url and rng.random() < 0.3) else [],
           'url_int0': [url[0]] if (len(url) >= 1 and rng.random() < 0.25) else [],
           'mws': [spec(m) for m in mws_app], 'route_mws': [spec(m) for m in mws_route],
           'endpoint': {'sig': ep_sig, 'kind': rng.choice(KINDS)},
           'render': {'sig': rn_sig, 'kind': rng.choice(KINDS), 'factory': rng.random() < 0.2}}
    cfg['url_int0'] = [u for u in cfg['url_int0'] if u not in cfg['url_multi']]
    if outer is not None:
        outer['mws'] = [spec(m) for m in mws_outer]
        cfg['outer'] = outer
    if route_resources and rng.random() < 0.6:
        cfg['decoy'] = rng.choice(route_resources)
    if defect:
        apply_defect(rng, cfg, defect)
    d = cfg.get('decoy')
    if d and (d in cfg['url'] or d in (cfg.get('outer') or {}).get('prefix_url', []) or cfg['route_resources'].count(d) != 1
              or d in BUILTINS4 + ['context', 'next']):
        del cfg['decoy']                  # the decoy pattern would bind one name twice: an invalid pattern, not this lab's subject
    if cfg.get('decoy') and not defect:
        # a name some function of the real route takes WITH A DEFAULT and that nothing offers there: the sibling route
        # before it (the decoy) has a resource of that name
        offered = set(url + resources + route_resources + o_names + BUILTINS4 + ['next', 'context'])
        for m in all_specs(cfg):
            offered.update(m['provides'] + m['endpoint_provides'] + m['render_provides'])
        cand = set()
        for sg in [cfg['endpoint']['sig'], cfg['render']['sig']] + [m[f] for m in cfg['route_mws'] for f in ('request', 'endpoint', 'render') if m.get(f)]:
            cand.update(x for x in sg['defaulted'] if x not in offered)
        # the decoy route runs the same functions: the name must not be required by any of them
        for sg in [cfg['endpoint']['sig'], cfg['render']['sig']]:
            cand -= set(x for x in sg['pos'] + sg['kwonly'] if x not in sg['defaulted'])
        if cand and rng.random() < 0.7:
            cfg['decoy_extra'] = sorted(cand)[0]
    cfg['scripts'] = gen_scripts(rng, cfg)
    if rng.random() < 0.3:
        cfg['dslash'] = True
    if cfg.get('decoy') and not cfg['scripts']['mw'] and rng.random() < 0.6:
        cfg['reenter'] = True
    if rng.random() < 0.3:
        cfg['pct'] = True
    if rng.random() < 0.3:
        cfg['reuse_args'] = True
    if rng.random() < 0.25:
        # one letter of the alphabet becomes a name the framework's generated code uses itself
        cfg = rename(cfg, rng.choice(ALPHA), rng.choice(EXOTIC))
    return cfg


def rename(x, old, new):
    if isinstance(x, dict):
        return dict((k, rename(v, old, new)) for k, v in x.items())
    if isinstance(x, list):
        return [rename(v, old, new) for v in x]
    return new if (isinstance(x, str) and x == old) else x


DEFECTS = ['dup_mw_mw', 'dup_mw_url', 'dup_mw_resource', 'dup_mw_builtin', 'dup_url_resource', 'dup_url_builtin',
           'reserved_resource', 'reserved_route_resource', 'first_not_next', 'no_params', 'next_in_endpoint',
           'next_in_render', 'context_in_request', 'context_in_endpoint', 'late_provider', 'unknown_name',
           'dup_within_tuple', 'cycle', 'ep_provides_in_render', 'first_not_next_instance', 'dup_same_mw_two_phases',
           'dup_prefix_resource', 'dup_prefix_mw', 'dup_prefix_builtin', 'reserved_outer_resource', 'dup_outer_mw_inner_mw',
           'dup_prefix_outer_resource', 'dup_mw_subclass']


def all_specs(cfg):
    return (cfg['outer']['mws'] if cfg.get('outer') else []) + cfg['mws'] + cfg['route_mws']


def apply_defect(rng, cfg, d):
    specs = all_specs(cfg)
    cfg['defect'] = d
    reserved = BUILTINS4 + ['context', 'next']

    def some_mw(need=None):
        c = [m for m in specs if need is None or m.get(need) is not None]
        return rng.choice(c) if c else None

    def add_prov(m, name):
        tup = rng.choice(['provides', 'endpoint_provides', 'render_provides'])
        m[tup] = m[tup] + [name]
        sync(cfg, m)
    if d in ('dup_prefix_resource', 'dup_prefix_mw', 'dup_prefix_builtin', 'reserved_outer_resource', 'dup_outer_mw_inner_mw',
             'dup_prefix_outer_resource'):
        if not cfg.get('outer'):
            cfg['outer'] = {'resources': [], 'prefix_url': [], 'mws': []}
        o = cfg['outer']
        if d == 'dup_prefix_resource':
            which = rng.choice(['resources', 'route_resources'])
            if not cfg[which]:
                cfg[which] = ['pz']
            o['prefix_url'] = o['prefix_url'] + [cfg[which][0]]
        elif d == 'dup_prefix_outer_resource':
            if not o['resources']:
                o['resources'] = ['oz']
            o['prefix_url'] = o['prefix_url'] + [o['resources'][0]]
        elif d == 'dup_prefix_mw' and specs:
            n = 'pq'
            o['prefix_url'] = o['prefix_url'] + [n]
            inner = cfg['mws'] + cfg['route_mws']
            add_prov(rng.choice(inner) if inner else some_mw(), n)
        elif d == 'dup_prefix_builtin':
            o['prefix_url'] = o['prefix_url'] + [rng.choice(reserved)]
        elif d == 'reserved_outer_resource':
            o['resources'] = o['resources'] + [rng.choice(reserved)]
        elif d == 'dup_outer_mw_inner_mw' and o['mws'] and (cfg['mws'] + cfg['route_mws']):
            a, b = rng.choice(o['mws']), rng.choice(cfg['mws'] + cfg['route_mws'])
            add_prov(a, 'zy')
            if a['id'] != b['id']:
                add_prov(b, 'zy')
    elif d == 'dup_mw_subclass':
        # two middleware TYPES related by inheritance, at different levels, offering one name
        upper = cfg['outer']['mws'] if (cfg.get('outer') and cfg['outer']['mws']) else cfg['mws']
        lower = cfg['route_mws'] if upper is not cfg['route_mws'] else []
        if upper and upper is not lower:
            a = upper[0]
            clone = json.loads(json.dumps(a))
            clone['inst'] = max(x['inst'] for x in specs) + 1
            clone['id'] = max(x['id'] for x in specs) + 1
            clone['base'] = a['id']
            clone['unique'] = True
            a['unique'] = True
            sync(cfg, a)
            for k in ('provides', 'endpoint_provides', 'render_provides'):
                clone[k] = []
            add_prov(a, 'zs')
            clone['provides'] = ['zs']
            if clone.get('request') is None:
                clone['request'] = {'pos': ['next'], 'posonly': 0, 'kwonly': [], 'defaulted': []}
            (cfg['route_mws'] if a not in cfg['route_mws'] else cfg['mws']).append(clone)
    elif d == 'dup_mw_mw' and len(specs) >= 2:
        a, b = rng.sample(specs, 2)
        n = 'zz'
        add_prov(a, n)
        if a['id'] != b['id']:
            add_prov(b, n)
    elif d == 'dup_mw_url' and specs:
        if not cfg['url']:
            cfg['url'] = ['a']
        add_prov(some_mw(), cfg['url'][0])
    elif d == 'dup_mw_resource' and specs:
        if not cfg['resources']:
            cfg['resources'] = ['rz']
        add_prov(some_mw(), cfg['resources'][0])
    elif d == 'dup_mw_builtin' and specs:
        add_prov(some_mw(), rng.choice(reserved))
    elif d == 'dup_url_resource':
        if not cfg['url']:
            cfg['url'] = ['a']
        which = rng.choice(['resources', 'route_resources'])
        cfg[which] = cfg[which] + [cfg['url'][0]]
    elif d == 'dup_url_builtin':
        cfg['url'] = cfg['url'] + [rng.choice(reserved)]
    elif d == 'reserved_resource':
        cfg['resources'] = cfg['resources'] + [rng.choice(reserved)]
    elif d == 'reserved_route_resource':
        cfg['route_resources'] = cfg['route_resources'] + [rng.choice(reserved)]
    elif d == 'first_not_next':
        m = some_mw(rng.choice(['request', 'endpoint', 'render'])) or some_mw('request')
        if m:
            f = [k for k in ('request', 'endpoint', 'render') if m.get(k)][0]
            s = m[f]
            s['pos'] = s['pos'][1:] + ['next'] if rng.random() < 0.5 and len(s['pos']) > 1 else ['x1'] + s['pos'][1:]
            s['defaulted'] = [x for x in s['defaulted'] if x != s['pos'][0]] if s['pos'] else []
            s['defaulted'] = []
            s['posonly'] = 0
            sync(cfg, m)
    elif d == 'first_not_next_instance':
        # a second instance of an already well-formed type carries an instance-level function without next first
        c = [m for m in specs if m.get('request') is not None]
        if c:
            m = rng.choice(c)
            lst = [l for l in ((cfg.get('outer') or {}).get('mws', []), cfg['mws'], cfg['route_mws']) if any(x is m for x in l)][0]
            clone = json.loads(json.dumps(m))
            clone['inst'] = max(x['inst'] for x in specs) + 1
            clone['provides'], clone['endpoint_provides'], clone['render_provides'] = [], [], []
            f = rng.choice([k for k in ('request', 'endpoint', 'render') if clone.get(k) is not None])
            sg = clone[f]
            sg['pos'] = (sg['pos'][1:] + ['next']) if (len(sg['pos']) > 1 and rng.random() < 0.5) else ['x1'] + sg['pos'][1:]
            sg['defaulted'], sg['posonly'] = [], 0
            lst.insert(lst.index(m) + 1, clone)
    elif d == 'dup_same_mw_two_phases' and specs:
        m = some_mw()
        a, b = rng.sample(['provides', 'endpoint_provides', 'render_provides'], 2)
        m[a] = m[a] + ['tw']
        m[b] = m[b] + ['tw']
        sync(cfg, m)
    elif d == 'no_params':
        m = some_mw('request')
        if m:
            m['request'] = {'pos': [], 'posonly': 0, 'kwonly': [], 'defaulted': []}
            sync(cfg, m)
    elif d in ('next_in_endpoint', 'next_in_render'):
        s = cfg['endpoint' if d == 'next_in_endpoint' else 'render']['sig']
        how = rng.choice(['required', 'required', 'defaulted', 'kwonly_defaulted'])
        if how == 'required':
            s['pos'] = s['pos'] + ['next'] if not s['defaulted'] else ['next'] + s['pos']
        elif how == 'defaulted':
            # def login(request, next=None): the reserved name with a default of its own is the reserved name all the same
            s['pos'] = s['pos'] + ['next']
            s['defaulted'] = s['defaulted'] + ['next']
        else:
            s['kwonly'] = s['kwonly'] + ['next']
            s['defaulted'] = s['defaulted'] + ['next']
        s['posonly'] = 0
    elif d in ('context_in_request', 'context_in_endpoint'):
        f = 'request' if d == 'context_in_request' else 'endpoint'
        m = some_mw(f)
        if m:
            s = m[f]
            s['pos'] = ['next', 'context'] + [x for x in s['pos'][1:] if x != 'context']
            s['defaulted'] = [x for x in s['defaulted'] if x != 'context']
            s['posonly'] = 0
            sync(cfg, m)
        elif d == 'context_in_endpoint':
            s = cfg['endpoint']['sig']
            s['pos'] = ['context'] + [x for x in s['pos'] if x != 'context']
            s['defaulted'] = [x for x in s['defaulted'] if x != 'context']
            s['posonly'] = 0
    elif d == 'late_provider' and len(specs) >= 2:
        # an earlier request middleware requires what a later one provides
        a, b = specs[0], specs[-1]
        if a.get('request') and b.get('request') and b['provides'] and a['id'] != b['id']:
            s = a['request']
            n = b['provides'][0]
            if n not in s['pos']:
                s['pos'] = [s['pos'][0], n] + s['pos'][1:]
                s['defaulted'] = [x for x in s['defaulted'] if x != n]
                s['posonly'] = 0
            sync(cfg, a)
    elif d == 'unknown_name':
        s = rng.choice([cfg['endpoint']['sig'], cfg['render']['sig']])
        s['pos'] = ['nowhere'] + s['pos']
        s['posonly'] = 0
    elif d == 'dup_within_tuple' and specs:
        m = some_mw()
        tup = rng.choice(['provides', 'endpoint_provides', 'render_provides'])
        m[tup] = m[tup] + ['ww', 'ww'] if rng.random() < 0.5 else m[tup] + ['ww']
        if m[tup].count('ww') == 1:
            other = [t for t in ('provides', 'endpoint_provides', 'render_provides') if t != tup][0]
            m[other] = m[other] + ['ww']
        sync(cfg, m)
    elif d == 'cycle' and specs:
        m = some_mw('request')
        if m:
            s = m['request']
            n = 'cy'
            m['provides'] = m['provides'] + [n]
            if len(specs) >= 2 and rng.random() < 0.6:
                o = [x for x in specs if x['id'] != m['id'] and x.get('request')]
                if o:
                    o = o[0]
                    o['provides'] = o['provides'] + ['cz']
                    o['request']['pos'] = o['request']['pos'] + [n]
                    o['request']['defaulted'] = o['request']['defaulted'] + [n]
                    s['pos'] = s['pos'] + ['cz']
                    s['defaulted'] = s['defaulted'] + ['cz']
                    sync(cfg, o)
                    sync(cfg, m)
                    return
            s['pos'] = s['pos'] + [n]
            s['defaulted'] = s['defaulted'] + [n]
            sync(cfg, m)
    elif d == 'ep_provides_in_render':
        m = some_mw('endpoint')
        if m:
            m['endpoint_provides'] = m['endpoint_provides'] + ['epx']
            sync(cfg, m)
            s = cfg['render']['sig']
            s['pos'] = s['pos'] + ['epx'] if not s['defaulted'] else ['epx'] + s['pos']
            s['posonly'] = 0


def sync(cfg, m):
    """instances of one type share one class: copy the edited spec to its siblings"""
    for o in all_specs(cfg):
        if o['id'] == m['id'] and o is not m:
            for k in ('request', 'endpoint', 'render', 'provides', 'endpoint_provides', 'render_provides',
                      'unique', 'reorderable'):
                o[k] = json.loads(json.dumps(m[k]))


def gen_scripts(rng, cfg):
    funcs = []
    for m in all_specs(cfg):
        for f, ph in (('request', 'q'), ('endpoint', 'e'), ('render', 'r')):
            if m.get(f) is not None:
                funcs.append((ph, m['inst']))
    sc = {'mw': [], 'ep': ['ctx', rng.choice(['CTX', 'CTX', 'CTX'] + sorted(FALSY))], 'rn': ['resp', 'RN'],
          'positional': [m['inst'] for m in all_specs(cfg) if rng.random() < 0.4]}
    x = rng.random()
    if x < 0.45:
        return sc
    k = rng.choice([1, 1, 2])
    for _ in range(k):
        tgt = rng.choice(['mw', 'mw', 'mw', 'ep', 'rn']) if funcs else rng.choice(['ep', 'rn'])
        if tgt == 'mw':
            ph, inst = rng.choice(funcs)
            s = rng.choice([['raise', 'ErrB'], ['raise', 'ErrBT'], ['raise', 'Http409'], ['call', ['raise_after', 'Http410']],
                            ['early', 'EARLY%d' % inst], ['call', ['raise_after', 'ErrA']],
                            ['call', ['swallow', 'SW%d' % inst]], ['call', ['replace', 'RP%d' % inst]]])
            if not any(p == ph and i == inst for p, i, _ in sc['mw']):
                sc['mw'].append([ph, inst, s])
        elif tgt == 'ep':
            sc['ep'] = rng.choice([['resp', 'EPRESP'], ['raise', 'ErrE'], ['raise', 'ErrET'], ['raise', 'Http418'], ['ctx', 'CTX2']])
        else:
            sc['rn'] = rng.choice([['raise', 'ErrR'], ['raise', 'ErrRT'], ['raise', 'Http409'], ['non', 'NON'], ['resp', 'RN2']])
    return sc
