#!/bin/sh
# Offline build of the whole framework from files on disk: regenerate Gen/*.v from /repo,
# full .vo build, extraction, OCaml driver.
cd "$(dirname "$0")" || exit 2
export PYTHONDONTWRITEBYTECODE=1
/venv/bin/python - <<'PY'
import sys
sys.path.insert(0, '.')
from harness import core
b = core.build('C19')
print(b.make_log[-3000:] if not (b.make_ok and b.driver_ok) else 'build ok')
sys.exit(0 if (b.make_ok and b.driver_ok) else 1)
PY
